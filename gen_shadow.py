#!/usr/bin/env python3
"""Generate /verif/sim/shadow/Cargo.toml from /repo/Cargo.toml.

The shadow package has the same name and dependencies as the repository's package but
  * its [lib] path points at /repo/src/lib.rs (so every build compiles /repo's working tree),
  * dev-dependencies, benches and examples are stripped,
  * `parking_lot` is renamed to the workspace crate zmq-sim-sync (a drop-in with preemption points),
  * `zmq-simrt` (the simulated runtime reached through the cfg(zmq_verif) seam) is added.
/repo's own Cargo.toml and Cargo.lock are never touched.
"""
import os, re, sys

REPO = os.environ.get("ZSIM_REPO", "/repo")
HERE = os.path.dirname(os.path.abspath(__file__))
OUT = os.path.join(HERE, "sim", "shadow", "Cargo.toml")

src = open(os.path.join(REPO, "Cargo.toml")).read()

# split into top-level sections
parts = re.split(r"(?m)^(?=\[)", src)
keep = []
for p in parts:
    head = p.split("\n", 1)[0].strip()
    if head.startswith("[dev-dependencies") or head.startswith("[[bench]]") or head.startswith("[[example]]") \
       or head.startswith("[lib]") or head.startswith("[[test]]") or head.startswith("[lints") \
       or head.startswith("[profile") or head.startswith("[workspace") or head.startswith("[patch"):
        continue
    keep.append(p)
out = "".join(keep)
out, n = re.subn(r'(?m)^parking_lot\s*=.*$',
                 'parking_lot = { package = "zmq-sim-sync", path = "../simsync" }', out)
if n != 1:
    sys.stderr.write("gen_shadow: parking_lot dependency line not found exactly once (found %d)\n" % n)
    sys.exit(2)
out = out.rstrip("\n") + "\n"
# extra dependency goes into the [dependencies] table: append right after its header
out = out.replace("[dependencies]\n", '[dependencies]\nzmq-simrt = { path = "../simrt" }\n', 1)
out += """
[lib]
path = "%s/src/lib.rs"
bench = false
test = false
doctest = false

[lints.rust]
unexpected_cfgs = { level = "allow" }
""" % REPO
out = re.sub(r'(?m)^autobenches.*$', '', out)
out = out.replace("[package]\n", "[package]\nautobenches = false\nautoexamples = false\nautotests = false\nautobins = false\n", 1)

os.makedirs(os.path.dirname(OUT), exist_ok=True)
old = open(OUT).read() if os.path.exists(OUT) else None
if old != out:
    open(OUT, "w").write(out)
