//! Uniform wrapper over the nine socket types of the library.
use futures::channel::mpsc;
use zeromq::prelude::*;
use zeromq::*;

#[derive(Clone, Copy, PartialEq, Eq, Debug, PartialOrd, Ord)]
pub enum Kind {
    Pull,
    Sub,
    Dealer,
    Router,
    Rep,
    Xpub,
    Push,
    Pub,
    Req,
}
pub const ALL_KINDS: [Kind; 9] = [Kind::Pull, Kind::Sub, Kind::Dealer, Kind::Router, Kind::Rep, Kind::Xpub, Kind::Push, Kind::Pub, Kind::Req];
pub const RECV_KINDS: [Kind; 6] = [Kind::Pull, Kind::Sub, Kind::Dealer, Kind::Router, Kind::Rep, Kind::Xpub];

impl Kind {
    pub fn name(&self) -> &'static str {
        match self {
            Kind::Pull => "PULL",
            Kind::Sub => "SUB",
            Kind::Dealer => "DEALER",
            Kind::Router => "ROUTER",
            Kind::Rep => "REP",
            Kind::Xpub => "XPUB",
            Kind::Push => "PUSH",
            Kind::Pub => "PUB",
            Kind::Req => "REQ",
        }
    }
    /// Socket-Type names a scripted peer may announce to be admitted (RFC compatibility table)
    pub fn peers(&self) -> &'static [&'static str] {
        match self {
            Kind::Pull => &["PUSH"],
            Kind::Sub => &["PUB", "XPUB"],
            Kind::Dealer => &["ROUTER", "REP", "DEALER"],
            Kind::Router => &["DEALER", "REQ", "ROUTER"],
            Kind::Rep => &["REQ", "DEALER"],
            Kind::Xpub => &["SUB", "XSUB"],
            Kind::Push => &["PULL"],
            Kind::Pub => &["SUB", "XSUB"],
            Kind::Req => &["REP", "ROUTER"],
        }
    }
    pub fn has_recv(&self) -> bool {
        !matches!(self, Kind::Push | Kind::Pub)
    }
    pub fn has_send(&self) -> bool {
        !matches!(self, Kind::Pull | Kind::Sub)
    }
    pub fn uses_fair_queue(&self) -> bool {
        matches!(self, Kind::Pull | Kind::Sub | Kind::Dealer | Kind::Router | Kind::Rep | Kind::Xpub)
    }
}

pub enum AnySock {
    Pull(PullSocket),
    Sub(SubSocket),
    Dealer(DealerSocket),
    Router(RouterSocket),
    Rep(RepSocket),
    Xpub(XPubSocket),
    Push(PushSocket),
    Pub(PubSocket),
    Req(ReqSocket),
}

macro_rules! each {
    ($s:expr, $x:ident => $e:expr) => {
        match $s {
            AnySock::Pull($x) => $e,
            AnySock::Sub($x) => $e,
            AnySock::Dealer($x) => $e,
            AnySock::Router($x) => $e,
            AnySock::Rep($x) => $e,
            AnySock::Xpub($x) => $e,
            AnySock::Push($x) => $e,
            AnySock::Pub($x) => $e,
            AnySock::Req($x) => $e,
        }
    };
}

impl AnySock {
    pub fn new(k: Kind, identity: Option<&[u8]>) -> AnySock {
        let mut o = SocketOptions::default();
        if let Some(id) = identity {
            o.peer_identity(util::PeerIdentity::try_from(id.to_vec()).expect("identity"));
        }
        match k {
            Kind::Pull => AnySock::Pull(PullSocket::with_options(o)),
            Kind::Sub => AnySock::Sub(SubSocket::with_options(o)),
            Kind::Dealer => AnySock::Dealer(DealerSocket::with_options(o)),
            Kind::Router => AnySock::Router(RouterSocket::with_options(o)),
            Kind::Rep => AnySock::Rep(RepSocket::with_options(o)),
            Kind::Xpub => AnySock::Xpub(XPubSocket::with_options(o)),
            Kind::Push => AnySock::Push(PushSocket::with_options(o)),
            Kind::Pub => AnySock::Pub(PubSocket::with_options(o)),
            Kind::Req => AnySock::Req(ReqSocket::with_options(o)),
        }
    }
    pub fn kind(&self) -> Kind {
        match self {
            AnySock::Pull(_) => Kind::Pull,
            AnySock::Sub(_) => Kind::Sub,
            AnySock::Dealer(_) => Kind::Dealer,
            AnySock::Router(_) => Kind::Router,
            AnySock::Rep(_) => Kind::Rep,
            AnySock::Xpub(_) => Kind::Xpub,
            AnySock::Push(_) => Kind::Push,
            AnySock::Pub(_) => Kind::Pub,
            AnySock::Req(_) => Kind::Req,
        }
    }
    pub async fn bind(&mut self, ep: &str) -> ZmqResult<Endpoint> {
        each!(self, s => s.bind(ep).await)
    }
    pub async fn connect(&mut self, ep: &str) -> ZmqResult<()> {
        each!(self, s => s.connect(ep).await)
    }
    pub async fn unbind(&mut self, ep: Endpoint) -> ZmqResult<()> {
        each!(self, s => s.unbind(ep).await)
    }
    pub fn binds(&mut self) -> Vec<Endpoint> {
        each!(self, s => s.binds().keys().cloned().collect())
    }
    pub fn monitor(&mut self) -> mpsc::Receiver<SocketEvent> {
        each!(self, s => s.monitor())
    }
    pub async fn close(self) -> Vec<ZmqError> {
        each!(self, s => s.close().await)
    }
    pub async fn recv(&mut self) -> ZmqResult<ZmqMessage> {
        match self {
            AnySock::Pull(s) => s.recv().await,
            AnySock::Sub(s) => s.recv().await,
            AnySock::Dealer(s) => s.recv().await,
            AnySock::Router(s) => s.recv().await,
            AnySock::Rep(s) => s.recv().await,
            AnySock::Xpub(s) => s.recv().await,
            AnySock::Req(s) => s.recv().await,
            AnySock::Push(_) | AnySock::Pub(_) => panic!("socket type has no recv"),
        }
    }
    pub async fn send(&mut self, m: ZmqMessage) -> ZmqResult<()> {
        match self {
            AnySock::Dealer(s) => s.send(m).await,
            AnySock::Router(s) => s.send(m).await,
            AnySock::Rep(s) => s.send(m).await,
            AnySock::Xpub(s) => s.send(m).await,
            AnySock::Push(s) => s.send(m).await,
            AnySock::Pub(s) => s.send(m).await,
            AnySock::Req(s) => s.send(m).await,
            AnySock::Pull(_) | AnySock::Sub(_) => panic!("socket type has no send"),
        }
    }
    pub async fn subscribe(&mut self, t: &str) -> ZmqResult<()> {
        match self {
            AnySock::Sub(s) => s.subscribe(t).await,
            _ => Ok(()),
        }
    }
}
