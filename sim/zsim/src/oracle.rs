//! Oracles shared by several properties, and the counting allocator used by C03/C12.
use crate::refcodec::{self as rc};
use std::alloc::{GlobalAlloc, Layout, System};
use std::cell::Cell;

// ------------------------------------------------------------------------------------------------
// counting allocator (per-thread accounting: a run lives on one thread)
// ------------------------------------------------------------------------------------------------
pub struct CountingAlloc;

/// a single request above this is refused (after writing a marker), so a length-driven
/// reservation aborts the worker with evidence instead of silently succeeding through overcommit
pub const ALLOC_CEILING: usize = 256 << 20;

thread_local! {
    static LIVE: Cell<isize> = const { Cell::new(0) };
    static PEAK: Cell<isize> = const { Cell::new(0) };
    static MAXREQ: Cell<usize> = const { Cell::new(0) };
    static TRACK: Cell<bool> = const { Cell::new(false) };
}

unsafe impl GlobalAlloc for CountingAlloc {
    unsafe fn alloc(&self, l: Layout) -> *mut u8 {
        if l.size() > ALLOC_CEILING {
            let msg = b"\nA alloc-refused\n";
            libc::write(1, msg.as_ptr() as *const _, msg.len());
            return std::ptr::null_mut();
        }
        note(l.size() as isize, l.size());
        System.alloc(l)
    }
    unsafe fn dealloc(&self, p: *mut u8, l: Layout) {
        note(-(l.size() as isize), 0);
        System.dealloc(p, l)
    }
    unsafe fn realloc(&self, p: *mut u8, l: Layout, new: usize) -> *mut u8 {
        if new > ALLOC_CEILING {
            let msg = b"\nA alloc-refused\n";
            libc::write(1, msg.as_ptr() as *const _, msg.len());
            return std::ptr::null_mut();
        }
        note(new as isize - l.size() as isize, new);
        System.realloc(p, l, new)
    }
}

#[inline]
fn note(delta: isize, req: usize) {
    let _ = TRACK.try_with(|t| {
        if t.get() {
            let _ = LIVE.try_with(|c| {
                let v = c.get() + delta;
                c.set(v);
                let _ = PEAK.try_with(|p| {
                    if v > p.get() {
                        p.set(v)
                    }
                });
            });
            if req > 0 {
                let _ = MAXREQ.try_with(|m| {
                    if req > m.get() {
                        m.set(req)
                    }
                });
            }
        }
    });
}

/// start (or restart) accounting on this thread: live = 0, peak = 0, max request = 0
pub fn alloc_mark() {
    LIVE.with(|c| c.set(0));
    PEAK.with(|c| c.set(0));
    MAXREQ.with(|c| c.set(0));
    TRACK.with(|t| t.set(true));
}
pub fn alloc_stop() {
    TRACK.with(|t| t.set(false));
}
/// (live growth since mark, peak growth since mark, largest single request since mark)
pub fn alloc_stats() -> (isize, isize, usize) {
    (LIVE.with(|c| c.get()), PEAK.with(|c| c.get()), MAXREQ.with(|c| c.get()))
}

// ------------------------------------------------------------------------------------------------
// wire oracle (C01, on in every scenario): whatever the library wrote on a connection must be
// a well-formed canonical ZMTP 3.0 stream: greeting 3.0/NULL, READY with Socket-Type, frames.
// ------------------------------------------------------------------------------------------------
pub struct WireCheck {
    pub parsed: rc::Parsed,
    pub problems: Vec<String>,
}

pub fn check_library_stream(tap: &[u8], expect_socket_type: Option<&str>, expect_identity: Option<Option<&[u8]>>) -> WireCheck {
    let parsed = rc::parse_stream(tap);
    let mut problems = Vec::new();
    if let Some((at, e)) = &parsed.error {
        problems.push(format!("malformed at byte {at}: {e}"));
    }
    if !parsed.noncanonical.is_empty() {
        problems.push(format!("long size used for a short body at byte {}", parsed.noncanonical[0]));
    }
    if tap.len() >= 64 {
        match parsed.items.first() {
            Some(rc::Spanned { item: rc::Item::Greeting { version, mechanism, as_server }, .. }) => {
                if *version != (3, 0) {
                    problems.push(format!("greeting version {version:?}, expected 3.0"));
                }
                if mechanism != b"NULL" {
                    problems.push(format!("greeting mechanism {:?}", String::from_utf8_lossy(mechanism)));
                }
                if *as_server {
                    problems.push("as-server set with NULL mechanism".into());
                }
            }
            _ => {
                if parsed.error.is_none() {
                    problems.push("stream does not start with a greeting".into())
                }
            }
        }
    }
    if parsed.items.len() >= 2 {
        match rc::parse_hello(&parsed) {
            Ok(h) => {
                match (&h.socket_type, expect_socket_type) {
                    (None, _) => problems.push("READY without Socket-Type".into()),
                    (Some(t), Some(e)) if t != e.as_bytes() => problems.push(format!("READY Socket-Type {:?}, expected {e}", String::from_utf8_lossy(t))),
                    _ => {}
                }
                if let Some(exp) = expect_identity {
                    match (exp, &h.identity) {
                        (Some(e), Some(g)) if e == &g[..] => {}
                        (None, None) => {}
                        (e, g) => problems.push(format!("READY Identity {:?}, expected {:?}", g.as_ref().map(|x| x.len()), e.map(|x| x.len()))),
                    }
                }
                // every later command from this library is unexpected (it only ever sends READY)
                for it in parsed.items.iter().skip(2) {
                    if let rc::Item::Command { name, .. } = &it.item {
                        problems.push(format!("unexpected command {:?} after the handshake", String::from_utf8_lossy(name)));
                    }
                    if let rc::Item::Greeting { .. } = &it.item {
                        problems.push("second greeting".into());
                    }
                }
            }
            Err(e) => problems.push(format!("bad READY: {e}")),
        }
    }
    WireCheck { parsed, problems }
}
