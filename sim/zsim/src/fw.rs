//! Framework: property/stratum registry, single-case execution on a fresh thread, run reports.
use std::collections::BTreeMap;
use zmq_simrt as rt;
use zmq_simrt::tape::{self, NSTREAMS};

#[derive(Clone, Copy, PartialEq, Eq, Debug)]
pub enum Tier {
    Quick,
    Thorough,
}
impl Tier {
    pub fn name(&self) -> &'static str {
        match self {
            Tier::Quick => "quick",
            Tier::Thorough => "thorough",
        }
    }
}

pub struct Stratum {
    pub name: &'static str,
    /// number of cases in each tier; cases are numbered 0..n
    pub quick: u64,
    pub thorough: u64,
    /// the case index enumerates a finite space completely in this tier (quick, thorough)
    pub exhaustive: (bool, bool),
    pub run: fn(&mut Ctx),
    pub what: &'static str,
}

pub struct PropDef {
    pub id: &'static str,
    pub level: &'static str,
    pub rule: &'static str,
    pub assumptions: &'static [&'static str],
    pub strata: Vec<Stratum>,
}

#[derive(Clone, Debug)]
pub struct Violation {
    pub key: String,
    pub detail: String,
}

#[derive(Default)]
pub struct Outcome {
    pub violations: Vec<Violation>,
    pub probes: BTreeMap<&'static str, u64>,
    pub nontrivial: bool,
    pub sample: Option<String>,
    /// harness-level problems (never reported as property violations)
    pub harness_errors: Vec<String>,
    pub extra_shape: u64,
}

pub struct Ctx<'a> {
    pub sim: &'a rt::Sim,
    pub prop: &'static str,
    pub stratum: &'static str,
    pub idx: u64,
    pub tier: Tier,
    pub out: Outcome,
    pub want_sample: bool,
}

impl<'a> Ctx<'a> {
    /// a draw from the plan tape
    pub fn plan(&self, n: u64) -> u64 {
        rt::draw(rt::Stream::Plan, n)
    }
    pub fn plan_bool(&self) -> bool {
        self.plan(2) == 1
    }
    pub fn plan_pick<T: Copy>(&self, xs: &[T]) -> T {
        xs[self.plan(xs.len() as u64) as usize]
    }
    /// Record a violation. `clause` completes the class key `<prop>:<stratum>:<clause>`.
    pub fn violation(&mut self, clause: &str, detail: String) {
        let key = format!("{}:{}:{}", self.prop, self.stratum, clause);
        if !self.out.violations.iter().any(|v| v.key == key) {
            self.out.violations.push(Violation { key, detail });
        }
    }
    pub fn probe(&mut self, name: &'static str) {
        *self.out.probes.entry(name).or_insert(0) += 1;
    }
    pub fn probe_n(&mut self, name: &'static str, n: u64) {
        if n > 0 {
            *self.out.probes.entry(name).or_insert(0) += n;
        }
    }
    pub fn nontrivial(&mut self) {
        self.out.nontrivial = true;
    }
    pub fn harness_error(&mut self, e: String) {
        self.out.harness_errors.push(e);
    }
    /// library panics recorded by the runtime become violations of clause `panic`
    pub fn check_panics(&mut self) {
        let spins = self.sim.rt.spins.borrow().clone();
        for t in spins {
            let lib = if t.contains("/zsim/") || t == "app" || !t.contains('/') { "a task calling into the library" } else { "a library task" };
            self.violation("spins_when_transport_yields", format!("{lib} ('{t}') kept polling a transport that had told it to yield ({} refusals within one poll of the task): the transport's cooperative budget was exhausted and it wakes its caller at once, as tokio does for a future driven by block_on; the call never returns to the executor, so it can never make progress", rt::net::COOP_SPIN_LIMIT));
        }
        let panics = self.sim.rt.panics.borrow().clone();
        for p in panics {
            let in_harness = p.loc.contains("/zsim/") || p.loc.contains("/simrt/");
            if in_harness {
                self.harness_error(format!("harness panic in task {}: {} at {}", p.task, p.msg, p.loc));
            } else {
                let short = p.loc.rsplit('/').next().unwrap_or("").to_string();
                self.violation(&format!("panic@{short}"), format!("panic in task '{}': {} at {}", p.task, p.msg, p.loc));
            }
        }
    }
}

#[derive(Clone, Debug, Default)]
pub struct RunReport {
    pub violations: Vec<Violation>,
    pub harness_errors: Vec<String>,
    pub counters: BTreeMap<String, u64>,
    pub steps: u64,
    pub sim_time_us: u64,
    pub trace_hash: u64,
    pub shape_hash: u64,
    pub io_hash: u64,
    pub nontrivial: bool,
    pub sample: Option<String>,
    pub tapes: Option<[Vec<u32>; NSTREAMS]>,
    pub sched_trace: Option<Vec<String>>,
    pub draws: [u64; NSTREAMS],
    pub hung: bool,
}
impl RunReport {
    pub fn keys(&self) -> Vec<String> {
        let mut k: Vec<String> = self.violations.iter().map(|v| v.key.clone()).collect();
        k.sort();
        k
    }
    /// identity of the run's observable outcome for determinism checks
    pub fn fingerprint(&self) -> u64 {
        let mut h = self.trace_hash ^ self.shape_hash.rotate_left(7) ^ self.io_hash.rotate_left(29) ^ self.steps;
        for k in self.keys() {
            h = tape::mix(h, tape::hash_str(&k));
        }
        for (k, v) in &self.counters {
            h = tape::mix(h, tape::hash_str(k) ^ *v);
        }
        h
    }
}

pub struct CaseSpec {
    pub prop: &'static str,
    pub stratum: usize,
    pub idx: u64,
    pub seed: u64,
    pub tier: Tier,
    pub replay: Option<[Vec<u32>; NSTREAMS]>,
    pub record: bool,
    pub trace: bool,
    pub want_sample: bool,
    pub shared_rec: Option<[std::sync::Arc<std::sync::Mutex<Vec<u32>>>; NSTREAMS]>,
}

pub fn case_seed(global_seed: u64, prop: &str, stratum: &str, idx: u64) -> u64 {
    tape::mix(tape::mix(tape::mix(global_seed, tape::hash_str(prop)), tape::hash_str(stratum)), idx)
}

pub const RUN_STACK: usize = 2 << 20;

thread_local! {
    pub static WATCHDOG_S: std::cell::Cell<u64> = const { std::cell::Cell::new(10) };
}

/// Execute one case on a fresh thread (2 MiB stack: tokio's worker default, a documented
/// parameter of C03) and return its report. A wall-clock watchdog turns a run that stops
/// returning to the scheduler (a thread blocked for good in a synchronous lock, or an unbounded
/// loop inside one poll) into the violation clause `hang_in_one_step`; the stuck thread is
/// abandoned and the calling process is expected to exit soon afterwards.
pub fn exec_case(def: &'static PropDef, mut spec: CaseSpec) -> RunReport {
    let (tx, rx) = std::sync::mpsc::channel();
    let shared: Option<[std::sync::Arc<std::sync::Mutex<Vec<u32>>>; NSTREAMS]> = if spec.record { Some(Default::default()) } else { None };
    spec.shared_rec = shared.clone();
    let key = format!("{}:{}:hang_in_one_step", def.id, def.strata[spec.stratum].name);
    let h = std::thread::Builder::new()
        .stack_size(RUN_STACK)
        .name("zsim-run".into())
        .spawn(move || {
            let r = exec_case_here(def, spec);
            let _ = tx.send(r);
        })
        .expect("spawn run thread");
    let limit = std::time::Duration::from_secs(WATCHDOG_S.with(|w| w.get()));
    // hung = no scheduler step for `limit`; a run that keeps stepping is merely slow and gets 12x
    // as long before it is given up (as a harness problem, not as a verdict about the library)
    let started = std::time::Instant::now();
    let mut last = (rt::PROGRESS.load(std::sync::atomic::Ordering::Relaxed), std::time::Instant::now());
    let mut died = false;
    let outcome: Result<RunReport, bool> = loop {
        match rx.recv_timeout(std::time::Duration::from_millis(200)) {
            Ok(r) => break Ok(r),
            Err(std::sync::mpsc::RecvTimeoutError::Timeout) => {
                let p = rt::PROGRESS.load(std::sync::atomic::Ordering::Relaxed);
                if p != last.0 {
                    last = (p, std::time::Instant::now());
                }
                if last.1.elapsed() >= limit {
                    break Err(true);
                }
                if started.elapsed() >= limit * 12 {
                    break Err(false);
                }
            }
            Err(_) => {
                died = true;
                break Err(false);
            }
        }
    };
    match outcome {
        Ok(r) => {
            let _ = h.join();
            r
        }
        Err(true) => {
            let mut r = RunReport::default();
            r.hung = true;
            if let Some(sh) = &shared {
                let t: Vec<Vec<u32>> = sh.iter().map(|a| a.lock().map(|g| g.clone()).unwrap_or_default()).collect();
                r.tapes = Some([t[0].clone(), t[1].clone(), t[2].clone(), t[3].clone()]);
            }
            r.violations.push(Violation { key, detail: format!("the run stopped returning to the scheduler for {}s: a task is blocked for good inside a synchronous wait (on a single-threaded runtime the whole program stops), or loops without bound inside one poll", limit.as_secs()) });
            r
        }
        Err(false) if !died => {
            let mut r = RunReport::default();
            r.hung = true; // the thread is abandoned, the process must be recycled
            r.harness_errors.push(format!("case still stepping after {}s of wall clock: given up without a verdict", (limit * 12).as_secs()));
            r
        }
        Err(false) => {
            let _ = h.join();
            let mut r = RunReport::default();
            r.harness_errors.push("run thread died outside the simulation".into());
            r
        }
    }
}

fn exec_case_here(def: &'static PropDef, spec: CaseSpec) -> RunReport {
    let st = &def.strata[spec.stratum];
    let sim = rt::Sim::new(rt::RunCfg { seed: spec.seed, replay: spec.replay, record: spec.record, trace: spec.trace, shared_rec: spec.shared_rec });
    let mut ctx = Ctx { sim: &sim, prop: def.id, stratum: st.name, idx: spec.idx, tier: spec.tier, out: Outcome::default(), want_sample: spec.want_sample };
    let res = std::panic::catch_unwind(std::panic::AssertUnwindSafe(|| (st.run)(&mut ctx)));
    if res.is_err() {
        let (msg, loc) = rt::take_last_panic().unwrap_or_default();
        ctx.out.harness_errors.push(format!("scenario function panicked: {msg} at {loc}"));
    }
    let out = std::mem::take(&mut ctx.out);
    drop(ctx);
    let mut rep = RunReport::default();
    rep.violations = out.violations;
    rep.harness_errors = out.harness_errors;
    rep.steps = sim.rt.steps.get();
    rep.sim_time_us = rt::now().as_micros() as u64;
    rep.trace_hash = sim.rt.trace_hash.get();
    {
        let t = sim.rt.tapes.borrow();
        rep.shape_hash = t[0].h ^ out.extra_shape;
        rep.io_hash = t[2].h ^ t[3].h.rotate_left(13);
        for i in 0..NSTREAMS {
            rep.draws[i] = t[i].draws;
        }
    }
    for (k, v) in sim.rt.counters.borrow().iter() {
        rep.counters.insert(k.to_string(), *v);
    }
    for (k, v) in out.probes.iter() {
        *rep.counters.entry(format!("probe_{k}")).or_insert(0) += *v;
    }
    rep.nontrivial = out.nontrivial || rep.counters.iter().any(|(k, v)| k.starts_with("fault_") && *v > 0);
    rep.sample = out.sample;
    if spec.record {
        rep.tapes = Some(sim.recorded());
    }
    rep.sched_trace = sim.rt.trace.borrow().clone();
    drop(sim);
    rep
}

pub fn registry() -> &'static [PropDef] {
    static REG: std::sync::OnceLock<Vec<PropDef>> = std::sync::OnceLock::new();
    REG.get_or_init(crate::scen::all)
}
pub fn find_prop(id: &str) -> Option<&'static PropDef> {
    registry().iter().find(|p| p.id == id)
}
