//! zsim: deterministic simulation harness for zmq.rs.
//!
//!   zsim check <PROP> <quick|thorough>     driver: workers, known findings, evidence, exit 0/1/2
//!   zsim worker ...                        internal
//!   zsim one <PROP> <stratum> <idx> <seed> [--trace] [--record out.json]
//!   zsim replay <file>                     re-execute a replay file; exit 1 if it reproduces
//!   zsim shrink <in> <out> <seconds>       minimise a replay file
//!   zsim list
mod driver;
mod fw;
mod l1;
mod oracle;
mod refcodec;
mod scen;
mod shrink;
mod socks;
mod world;

use zmq_simrt as rt;

/// OS entropy seam: std's RandomState, uuid and rand all resolve to this symbol.
#[no_mangle]
pub unsafe extern "C" fn getrandom(buf: *mut libc::c_void, buflen: libc::size_t, _flags: libc::c_uint) -> libc::ssize_t {
    let s = std::slice::from_raw_parts_mut(buf as *mut u8, buflen);
    rt::entropy::fill(s);
    buflen as libc::ssize_t
}

#[global_allocator]
static ALLOC: oracle::CountingAlloc = oracle::CountingAlloc;

fn main() {
    let args: Vec<String> = std::env::args().collect();
    let code = match args.get(1).map(|s| s.as_str()) {
        Some("check") => driver::check(&args[2..]),
        Some("worker") => driver::worker(&args[2..]),
        Some("one") => driver::one(&args[2..]),
        Some("replay") => driver::replay(&args[2..]),
        Some("fingerprints") => driver::fingerprints(&args[2..]),
        Some("shrink") => shrink::shrink_cmd(&args[2..]),
        Some("confirm-shrink") => shrink::confirm_shrink_cmd(&args[2..]),
        Some("list") => {
            for p in fw::registry() {
                println!("{} [{}]", p.id, p.level);
                for s in &p.strata {
                    println!("    {:<28} quick={:<8} thorough={:<9} {}", s.name, s.quick, s.thorough, s.what);
                }
            }
            0
        }
        _ => {
            eprintln!("usage: zsim check|one|replay|shrink|list ...");
            2
        }
    };
    std::process::exit(code);
}
