//! Check driver: worker processes, crash attribution, known findings, confirmation, minimisation,
//! replay files, evidence.
use crate::fw::{self, case_seed, exec_case, CaseSpec, PropDef, RunReport, Tier};
use crate::shrink;
use serde_json::{json, Value};
use std::collections::{BTreeMap, HashSet};
use std::io::{BufRead, BufReader, Read, Write};
use std::path::{Path, PathBuf};
use std::process::{Command, Stdio};
use std::time::{Duration, Instant};
use zmq_simrt::tape::NSTREAMS;

pub fn verif_dir() -> PathBuf {
    std::env::var_os("ZSIM_VERIF_DIR").map(PathBuf::from).unwrap_or_else(|| PathBuf::from("/verif"))
}
fn parse_tier(s: &str) -> Tier {
    match s {
        "thorough" => Tier::Thorough,
        _ => Tier::Quick,
    }
}
fn env_u64(k: &str, d: u64) -> u64 {
    std::env::var(k).ok().and_then(|v| v.parse().ok()).unwrap_or(d)
}
fn stratum_count(s: &fw::Stratum, t: Tier) -> u64 {
    match t {
        Tier::Quick => s.quick,
        Tier::Thorough => s.thorough,
    }
}
fn write_line(s: &str) {
    // one write(2) per line so that lines never interleave with the allocator's marker
    let mut b = s.as_bytes().to_vec();
    b.push(b'\n');
    unsafe {
        libc::write(1, b.as_ptr() as *const _, b.len());
    }
}

// ------------------------------------------------------------------------------------------------
// worker
// ------------------------------------------------------------------------------------------------
#[derive(Default)]
struct Agg {
    runs: u64,
    per_stratum: Vec<u64>,
    steps: u64,
    sim_us: u64,
    counters: BTreeMap<String, u64>,
    nontrivial_runs: u64,
    samples: Vec<Value>,
    skipped_deadline: u64,
    recheck_n: u64,
    recheck_mismatch: u64,
    draws: [u64; NSTREAMS],
}
impl Agg {
    fn to_json(&self) -> Value {
        json!({"runs": self.runs, "per_stratum": self.per_stratum, "steps": self.steps, "sim_us": self.sim_us,
               "counters": self.counters, "nontrivial_runs": self.nontrivial_runs, "samples": self.samples,
               "skipped_deadline": self.skipped_deadline, "recheck_n": self.recheck_n, "recheck_mismatch": self.recheck_mismatch,
               "draws": self.draws.to_vec()})
    }
}

/// args: PROP tier seed k n deadline_s hashfile [skip_sid skip_idx]
pub fn worker(a: &[String]) -> i32 {
    let def = fw::find_prop(&a[0]).expect("unknown property");
    let tier = parse_tier(&a[1]);
    let seed: u64 = a[2].parse().unwrap();
    let k: u64 = a[3].parse().unwrap();
    let n: u64 = a[4].parse().unwrap();
    let deadline = Instant::now() + Duration::from_secs_f64(a[5].parse().unwrap());
    let mut hashfile = std::io::BufWriter::new(std::fs::OpenOptions::new().create(true).append(true).open(&a[6]).expect("hashfile"));
    let skip: Option<(usize, u64)> = if a.len() >= 9 { Some((a[7].parse().unwrap(), a[8].parse().unwrap())) } else { None };
    let mut agg = Agg::default();
    agg.per_stratum = vec![0; def.strata.len()];
    let mut global = 0u64;
    let mut skipping = skip.is_some();
    let mut since_summary = 0u64;
    // The strata advance side by side, each in proportion to its size: when the wall-clock budget
    // runs out (a slow or busy machine) every stratum has been cut at the same fraction, instead of
    // the later ones not having run at all. The order is a pure function of the case counts.
    let counts: Vec<u64> = def.strata.iter().map(|st| stratum_count(st, tier)).collect();
    let mut next_idx: Vec<u64> = vec![0; counts.len()];
    let total: u64 = counts.iter().sum();
    for _ in 0..total {
        // the stratum that is furthest behind: smallest next/cnt, compared without division
        let mut sid = usize::MAX;
        for (i, c) in counts.iter().enumerate() {
            if next_idx[i] >= *c {
                continue;
            }
            if sid == usize::MAX || (next_idx[i] as u128) * (counts[sid] as u128) < (next_idx[sid] as u128) * (*c as u128) {
                sid = i;
            }
        }
        let st = &def.strata[sid];
        let idx = next_idx[sid];
        next_idx[sid] += 1;
        let exhaustive = match tier {
            Tier::Quick => st.exhaustive.0,
            Tier::Thorough => st.exhaustive.1,
        };
        {
            let mine = global % n == k;
            global += 1;
            if !mine {
                continue;
            }
            if skipping {
                if Some((sid, idx)) == skip {
                    skipping = false;
                }
                continue;
            }
            if !exhaustive && Instant::now() > deadline {
                agg.skipped_deadline += 1;
                continue;
            }
            write_line(&format!("B {sid} {idx}"));
            let cs = case_seed(seed, def.id, st.name, idx);
            let want_sample = k == 0 && agg.samples.len() < 3 && agg.per_stratum[sid] == 0;
            let rep = exec_case(def, CaseSpec { prop: def.id, stratum: sid, idx, seed: cs, tier, replay: None, record: false, trace: want_sample, want_sample, shared_rec: None });
            agg.runs += 1;
            agg.per_stratum[sid] += 1;
            agg.steps += rep.steps;
            agg.sim_us += rep.sim_time_us;
            for i in 0..NSTREAMS {
                agg.draws[i] += rep.draws[i];
            }
            for (c, v) in &rep.counters {
                *agg.counters.entry(c.clone()).or_insert(0) += v;
            }
            if rep.nontrivial {
                agg.nontrivial_runs += 1;
                let h = rep.shape_hash ^ rep.trace_hash.rotate_left(21) ^ rep.io_hash.rotate_left(43);
                let _ = hashfile.write_all(&h.to_le_bytes());
            }
            if want_sample {
                let head: Vec<String> = rep.sched_trace.clone().unwrap_or_default().into_iter().take(40).collect();
                agg.samples.push(json!({"stratum": st.name, "idx": idx, "seed": cs, "case": rep.sample.clone().unwrap_or_default(),
                    "steps": rep.steps, "schedule_head": head.join(" "), "violations": rep.keys(), "trace_hash": format!("{:016x}", rep.trace_hash)}));
            }
            for v in &rep.violations {
                write_line(&format!("V {sid} {idx} {cs} {}\t{}", v.key, v.detail.replace('\n', " ")));
            }
            if rep.hung {
                // the run thread is stuck for good: hand over to a fresh process
                let _ = hashfile.flush();
                write_line(&format!("S {}", agg.to_json()));
                write_line("X");
                std::process::exit(3);
            }
            for h in &rep.harness_errors {
                write_line(&format!("H {sid} {idx} {}", h.replace('\n', " ")));
            }
            // determinism recheck on a sample of runs: same case again, fresh thread
            if agg.runs % 64 == 1 {
                let rep2 = exec_case(def, CaseSpec { prop: def.id, stratum: sid, idx, seed: cs, tier, replay: None, record: false, trace: false, want_sample: false, shared_rec: None });
                agg.recheck_n += 1;
                if rep2.fingerprint() != rep.fingerprint() {
                    agg.recheck_mismatch += 1;
                    write_line(&format!("D {sid} {idx} {cs}"));
                }
            }
            since_summary += 1;
            if since_summary >= 2000 {
                since_summary = 0;
                let _ = hashfile.flush();
                write_line(&format!("S {}", agg.to_json()));
            }
        }
    }
    let _ = hashfile.flush();
    write_line(&format!("S {}", agg.to_json()));
    write_line("E");
    0
}

/// args: PROP n fwd|rev — print the run fingerprint of the first n cases of every stratum, executed
/// in forward or reverse order (determinism protocol: the two outputs must be identical once sorted)
pub fn fingerprints(a: &[String]) -> i32 {
    let def = fw::find_prop(&a[0]).expect("unknown property");
    let n: u64 = a[1].parse().unwrap();
    let rev = a.get(2).map(|s| s == "rev").unwrap_or(false);
    let seed = env_u64("VERIF_SEED", 1);
    let mut cases: Vec<(usize, u64)> = Vec::new();
    for (sid, st) in def.strata.iter().enumerate() {
        for idx in 0..n.min(st.quick) {
            cases.push((sid, idx));
        }
    }
    if rev {
        cases.reverse();
    }
    let mut out = Vec::new();
    for (sid, idx) in cases {
        let cs = case_seed(seed, def.id, def.strata[sid].name, idx);
        let rep = exec_case(def, CaseSpec { prop: def.id, stratum: sid, idx, seed: cs, tier: Tier::Quick, replay: None, record: false, trace: false, want_sample: false, shared_rec: None });
        out.push(format!("{} {} {:016x} {}", def.strata[sid].name, idx, rep.fingerprint(), rep.keys().join(",")));
    }
    out.sort();
    for l in out {
        println!("{l}");
    }
    0
}

// ------------------------------------------------------------------------------------------------
// one / replay
// ------------------------------------------------------------------------------------------------
pub fn report_json(def: &PropDef, sid: usize, idx: u64, seed: u64, rep: &RunReport) -> Value {
    json!({
        "property": def.id, "stratum": def.strata[sid].name, "idx": idx, "seed": seed,
        "violations": rep.violations.iter().map(|v| json!({"key": v.key, "detail": v.detail})).collect::<Vec<_>>(),
        "harness_errors": rep.harness_errors, "steps": rep.steps, "sim_time_us": rep.sim_time_us,
        "trace_hash": format!("{:016x}", rep.trace_hash), "fingerprint": format!("{:016x}", rep.fingerprint()),
        "counters": rep.counters, "case": rep.sample, "schedule": rep.sched_trace,
    })
}

fn stratum_index(def: &PropDef, name: &str) -> Option<usize> {
    def.strata.iter().position(|s| s.name == name)
}

/// args: PROP stratum idx seed [--trace] [--record file] [--tier t]
pub fn one(a: &[String]) -> i32 {
    let Some(def) = fw::find_prop(&a[0]) else {
        eprintln!("unknown property");
        return 2;
    };
    let Some(sid) = stratum_index(def, &a[1]) else {
        eprintln!("unknown stratum");
        return 2;
    };
    let idx: u64 = a[2].parse().unwrap();
    let seed: u64 = a[3].parse().unwrap();
    let trace = a.iter().any(|x| x == "--trace");
    let record = a.iter().position(|x| x == "--record").map(|i| a[i + 1].clone());
    let tier = a.iter().position(|x| x == "--tier").map(|i| parse_tier(&a[i + 1])).unwrap_or(Tier::Quick);
    let rep = exec_case(def, CaseSpec { prop: def.id, stratum: sid, idx, seed, tier, replay: None, record: record.is_some(), trace, want_sample: true, shared_rec: None });
    println!("{}", serde_json::to_string_pretty(&report_json(def, sid, idx, seed, &rep)).unwrap());
    if let Some(f) = record {
        let key = rep.keys().first().cloned().unwrap_or_default();
        let rf = ReplayFile { property: def.id.to_string(), stratum: def.strata[sid].name.to_string(), idx, seed, tier, tapes: rep.tapes.clone().unwrap(), expect_key: key, expect_fingerprint: rep.fingerprint(), detail: rep.violations.first().map(|v| v.detail.clone()).unwrap_or_default(), minimised: false, crash: None };
        rf.save(Path::new(&f));
    }
    if rep.violations.is_empty() {
        0
    } else {
        1
    }
}

#[derive(Clone)]
pub struct ReplayFile {
    pub property: String,
    pub stratum: String,
    pub idx: u64,
    pub seed: u64,
    pub tier: Tier,
    pub tapes: [Vec<u32>; NSTREAMS],
    pub expect_key: String,
    pub expect_fingerprint: u64,
    pub detail: String,
    pub minimised: bool,
    /// Some(signal) if the expected outcome is the death of the process
    pub crash: Option<i32>,
}
impl ReplayFile {
    pub fn save(&self, p: &Path) {
        if let Some(d) = p.parent() {
            let _ = std::fs::create_dir_all(d);
        }
        let v = json!({
            "format": "zsim-replay-1", "property": self.property, "stratum": self.stratum, "idx": self.idx, "seed": self.seed.to_string(),
            "tier": self.tier.name(),
            "tapes": { "plan": self.tapes[0], "sched": self.tapes[1], "io": self.tapes[2], "select": self.tapes[3] },
            "expect_key": self.expect_key, "expect_fingerprint": format!("{:016x}", self.expect_fingerprint),
            "detail": self.detail, "minimised": self.minimised, "crash_signal": self.crash,
            "how": "zsim replay <this file>: every scheduling, transport, select! and workload decision is read from the tapes (an exhausted tape yields 0 = the simplest choice); OS entropy is derived from seed",
        });
        std::fs::write(p, serde_json::to_string(&v).unwrap()).expect("write replay file");
    }
    pub fn load(p: &Path) -> Result<ReplayFile, String> {
        let s = std::fs::read_to_string(p).map_err(|e| format!("{}: {e}", p.display()))?;
        let v: Value = serde_json::from_str(&s).map_err(|e| format!("{}: {e}", p.display()))?;
        let tape = |n: &str| -> Vec<u32> { v["tapes"][n].as_array().map(|a| a.iter().map(|x| x.as_u64().unwrap_or(0) as u32).collect()).unwrap_or_default() };
        Ok(ReplayFile {
            property: v["property"].as_str().unwrap_or("").to_string(),
            stratum: v["stratum"].as_str().unwrap_or("").to_string(),
            idx: v["idx"].as_u64().unwrap_or(0),
            seed: v["seed"].as_str().and_then(|s| s.parse().ok()).unwrap_or(0),
            tier: parse_tier(v["tier"].as_str().unwrap_or("quick")),
            tapes: [tape("plan"), tape("sched"), tape("io"), tape("select")],
            expect_key: v["expect_key"].as_str().unwrap_or("").to_string(),
            expect_fingerprint: u64::from_str_radix(v["expect_fingerprint"].as_str().unwrap_or("0"), 16).unwrap_or(0),
            detail: v["detail"].as_str().unwrap_or("").to_string(),
            minimised: v["minimised"].as_bool().unwrap_or(false),
            crash: v["crash_signal"].as_i64().map(|x| x as i32),
        })
    }
    pub fn exec(&self, trace: bool) -> Result<RunReport, String> {
        let def = fw::find_prop(&self.property).ok_or("unknown property in replay file")?;
        let sid = stratum_index(def, &self.stratum).ok_or("unknown stratum in replay file")?;
        // a crash replay carries no tapes: the case is regenerated from its seed
        let replay = if self.crash.is_some() && self.tapes.iter().all(|t| t.is_empty()) { None } else { Some(self.tapes.clone()) };
        Ok(exec_case(def, CaseSpec { prop: def.id, stratum: sid, idx: self.idx, seed: self.seed, tier: self.tier, replay, record: true, trace, want_sample: true, shared_rec: None }))
    }
}

/// args: file [--quiet] [--trace]; exit 1 + VIOLATION line if the recorded violation reproduces
/// exactly (same key, same fingerprint), 0 if the run is clean, 3 if it differs.
pub fn replay(a: &[String]) -> i32 {
    let quiet = a.iter().any(|x| x == "--quiet");
    let trace = a.iter().any(|x| x == "--trace");
    let rf = match ReplayFile::load(Path::new(&a[0])) {
        Ok(r) => r,
        Err(e) => {
            eprintln!("{e}");
            return 2;
        }
    };
    if rf.crash.is_some() && !a.iter().any(|x| x == "--in-child") {
        // expected outcome is process death: run in a child
        let st = run_child(Command::new(std::env::current_exe().unwrap()).args(["replay", &a[0], "--in-child", "--quiet"]), Duration::from_secs(120));
        use std::os::unix::process::ExitStatusExt;
        return match st {
            Some((st, _)) if st.signal().is_some() => {
                println!("REPRODUCED key={} (child died with signal {:?})", rf.expect_key, st.signal());
                println!("VIOLATION property={} replay={}", rf.property, a[0]);
                1
            }
            Some((st, _)) => {
                println!("NOT-REPRODUCED (child exit {:?})", st.code());
                0
            }
            None => {
                println!("NOT-REPRODUCED (child did not finish)");
                0
            }
        };
    }
    let rep = match rf.exec(trace) {
        Ok(r) => r,
        Err(e) => {
            eprintln!("{e}");
            return 2;
        }
    };
    if !quiet {
        let def = fw::find_prop(&rf.property).unwrap();
        let sid = stratum_index(def, &rf.stratum).unwrap();
        println!("{}", serde_json::to_string_pretty(&report_json(def, sid, rf.idx, rf.seed, &rep)).unwrap());
    }
    let same_key = rep.keys().iter().any(|k| *k == rf.expect_key);
    let same_fp = rep.fingerprint() == rf.expect_fingerprint;
    if same_key && same_fp {
        println!("REPRODUCED key={} fingerprint={:016x}", rf.expect_key, rep.fingerprint());
        println!("VIOLATION property={} replay={}", rf.property, a[0]);
        1
    } else if same_key {
        println!("REPRODUCED-DIFFERENT-TRACE key={} fingerprint={:016x} expected={:016x}", rf.expect_key, rep.fingerprint(), rf.expect_fingerprint);
        println!("VIOLATION property={} replay={}", rf.property, a[0]);
        1
    } else if rep.violations.is_empty() {
        println!("NOT-REPRODUCED (clean run)");
        0
    } else {
        println!("DIFFERENT-VIOLATION {:?}", rep.keys());
        3
    }
}

// ------------------------------------------------------------------------------------------------
// known findings
// ------------------------------------------------------------------------------------------------
pub struct Known {
    pub status: String,
    pub property: String,
    pub key: String,
    pub replay: Option<String>,
    pub what: String,
}
pub fn load_known() -> Vec<Known> {
    let p = verif_dir().join("known_findings.json");
    let Ok(s) = std::fs::read_to_string(&p) else { return vec![] };
    let Ok(v) = serde_json::from_str::<Value>(&s) else {
        eprintln!("known_findings.json does not parse");
        return vec![];
    };
    v["findings"].as_array().cloned().unwrap_or_default().iter().map(|f| Known {
        status: f["status"].as_str().unwrap_or("").to_string(),
        property: f["property"].as_str().unwrap_or("").to_string(),
        key: f["key"].as_str().unwrap_or("").to_string(),
        replay: f["replay"].as_str().map(|s| s.to_string()),
        what: f["what"].as_str().unwrap_or("").to_string(),
    }).collect()
}

// ------------------------------------------------------------------------------------------------
// driver
// ------------------------------------------------------------------------------------------------
struct WorkerState {
    child: std::process::Child,
    rx: std::sync::mpsc::Receiver<String>,
    k: u64,
    last_b: Option<(usize, u64)>,
    last_b_at: Instant,
    last_summary: Option<Value>,
    done: bool,
    alloc_refused: bool,
}

fn spawn_worker(def: &PropDef, tier: Tier, seed: u64, k: u64, n: u64, deadline_s: f64, hashfile: &Path, skip: Option<(usize, u64)>) -> WorkerState {
    let mut cmd = Command::new(std::env::current_exe().unwrap());
    cmd.arg("worker").arg(def.id).arg(tier.name()).arg(seed.to_string()).arg(k.to_string()).arg(n.to_string()).arg(format!("{deadline_s}")).arg(hashfile);
    if let Some((s, i)) = skip {
        cmd.arg(s.to_string()).arg(i.to_string());
    }
    cmd.stdout(Stdio::piped()).stderr(Stdio::null()).stdin(Stdio::null());
    let mut child = cmd.spawn().expect("spawn worker");
    let out = child.stdout.take().unwrap();
    let (tx, rx) = std::sync::mpsc::channel();
    std::thread::spawn(move || {
        let r = BufReader::new(out);
        for line in r.lines() {
            match line {
                Ok(l) => {
                    if tx.send(l).is_err() {
                        break;
                    }
                }
                Err(_) => break,
            }
        }
    });
    WorkerState { child, rx, k, last_b: None, last_b_at: Instant::now(), last_summary: None, done: false, alloc_refused: false }
}

#[derive(Clone)]
struct Found {
    sid: usize,
    idx: u64,
    seed: u64,
    key: String,
    detail: String,
    crash: Option<i32>,
}

/// run a child to completion with a wall-clock limit; None = killed at the limit
fn run_child(cmd: &mut Command, limit: Duration) -> Option<(std::process::ExitStatus, Vec<u8>)> {
    cmd.stdout(Stdio::piped()).stderr(Stdio::null()).stdin(Stdio::null());
    let mut child = cmd.spawn().ok()?;
    let mut out = child.stdout.take().unwrap();
    let h = std::thread::spawn(move || {
        let mut b = Vec::new();
        let _ = out.read_to_end(&mut b);
        b
    });
    let t0 = Instant::now();
    loop {
        match child.try_wait() {
            Ok(Some(st)) => {
                let b = h.join().unwrap_or_default();
                return Some((st, b));
            }
            Ok(None) => {
                if t0.elapsed() > limit {
                    let _ = child.kill();
                    let _ = child.wait();
                    return None;
                }
                std::thread::sleep(Duration::from_millis(5));
            }
            Err(_) => return None,
        }
    }
}

fn sanitize(s: &str) -> String {
    s.chars().map(|c| if c.is_ascii_alphanumeric() || c == '-' || c == '_' { c } else { '_' }).collect()
}

/// args: PROP tier
pub fn check(a: &[String]) -> i32 {
    let t0 = Instant::now();
    let Some(def) = a.first().and_then(|p| fw::find_prop(p)) else {
        eprintln!("unknown property {:?}", a.first());
        return 2;
    };
    let tier = parse_tier(&std::env::var("VERIF_TIER").ok().or_else(|| a.get(1).cloned()).unwrap_or_else(|| "quick".into()));
    let seed = env_u64("VERIF_SEED", 1);
    let nworkers = env_u64("ZSIM_WORKERS", 16).max(1);
    let budget_s = std::env::var("ZSIM_BUDGET_S").ok().and_then(|v| v.parse::<f64>().ok()).unwrap_or(match tier {
        Tier::Quick => 75.0,
        Tier::Thorough => 1800.0,
    });
    let vdir = verif_dir();
    let tmpdir = vdir.join("sim/target/zsim-tmp").join(format!("{}-{}-{}", def.id, tier.name(), std::process::id()));
    let _ = std::fs::create_dir_all(&tmpdir);
    let mut exit_code = 0;
    let mut harness_errors: Vec<String> = Vec::new();

    // ---- 1. known findings: re-execute stored replays -------------------------------------------
    let known = load_known();
    let mut masked: HashSet<String> = HashSet::new();
    let mut known_reproduced: Vec<String> = Vec::new();
    // open findings whose stored replay does not line up with this tree any more (its recorded
    // choices are consumed by the library's own reads, writes and wake-ups, so an unrelated change
    // there shifts them): the finding is then recognised by its class key, which names the exact
    // clause and history shape, re-confirmed and re-minimised like any violation, and reported as
    // KNOWN-FINDING with the fresh replay
    let mut stale_known: BTreeMap<String, String> = BTreeMap::new();
    for k in known.iter().filter(|k| k.property == def.id && k.status == "open") {
        let Some(rp) = &k.replay else { continue };
        let path = vdir.join(rp);
        let st = run_child(Command::new(std::env::current_exe().unwrap()).arg("replay").arg(&path).arg("--quiet"), Duration::from_secs(90));
        let reproduced = match st {
            Some((_, o)) => String::from_utf8_lossy(&o).lines().any(|l| l.starts_with("REPRODUCED")),
            None => false,
        };
        if reproduced {
            println!("KNOWN-FINDING: property={} {} [key {}]", def.id, k.what, k.key);
            masked.insert(k.key.clone());
            known_reproduced.push(k.key.clone());
        } else {
            println!("note: the stored replay {} of known finding '{}' does not reproduce on this tree; the finding is reported again only if the search meets its class", rp, k.key);
            stale_known.insert(k.key.clone(), k.what.clone());
        }
    }

    // ---- 2. workers -----------------------------------------------------------------------------
    let total_cases: u64 = def.strata.iter().map(|s| stratum_count(s, tier)).sum();
    let mut workers: Vec<WorkerState> = Vec::new();
    let mut hashfiles = Vec::new();
    for k in 0..nworkers {
        let hf = tmpdir.join(format!("hashes.{k}"));
        hashfiles.push(hf.clone());
        workers.push(spawn_worker(def, tier, seed, k, nworkers, budget_s, &hf, None));
    }
    let mut found: BTreeMap<String, Found> = BTreeMap::new();
    let mut found_counts: BTreeMap<String, u64> = BTreeMap::new();
    // further instances of each class: if the first one does not recur in a fresh process (possible
    // when the library under test keeps state across runs of one worker process, e.g. a process-wide
    // counter), another instance is tried before the class is given up as unconfirmed
    let mut alts: BTreeMap<String, Vec<Found>> = BTreeMap::new();
    let mut summaries: Vec<Value> = Vec::new();
    let mut determinism_mismatch: Vec<(usize, u64, u64)> = Vec::new();
    let hang_limit = Duration::from_secs(env_u64("ZSIM_HANG_S", 90));
    loop {
        let mut all_done = true;
        let mut respawn: Vec<(usize, Option<(usize, u64)>)> = Vec::new();
        for (wi, w) in workers.iter_mut().enumerate() {
            if w.done {
                continue;
            }
            all_done = false;
            while let Ok(line) = w.rx.try_recv() {
                let mut it = line.splitn(2, ' ');
                match it.next() {
                    Some("B") => {
                        let r: Vec<&str> = it.next().unwrap_or("").split(' ').collect();
                        if r.len() == 2 {
                            w.last_b = Some((r[0].parse().unwrap_or(0), r[1].parse().unwrap_or(0)));
                            w.last_b_at = Instant::now();
                        }
                    }
                    Some("V") => {
                        let rest = it.next().unwrap_or("");
                        let (head, detail) = rest.split_once('\t').unwrap_or((rest, ""));
                        let r: Vec<&str> = head.splitn(4, ' ').collect();
                        if r.len() == 4 {
                            let f = Found { sid: r[0].parse().unwrap_or(0), idx: r[1].parse().unwrap_or(0), seed: r[2].parse().unwrap_or(0), key: r[3].to_string(), detail: detail.to_string(), crash: None };
                            *found_counts.entry(f.key.clone()).or_insert(0) += 1;
                            let a = alts.entry(f.key.clone()).or_default();
                            if a.len() < 8 {
                                a.push(f.clone());
                            }
                            let e = found.entry(f.key.clone()).or_insert_with(|| f.clone());
                            if (f.sid, f.idx) < (e.sid, e.idx) {
                                *e = f;
                            }
                        }
                    }
                    Some("H") => harness_errors.push(it.next().unwrap_or("").to_string()),
                    Some("D") => {
                        let r: Vec<&str> = it.next().unwrap_or("").split(' ').collect();
                        if r.len() == 3 {
                            determinism_mismatch.push((r[0].parse().unwrap_or(0), r[1].parse().unwrap_or(0), r[2].parse().unwrap_or(0)));
                        }
                    }
                    Some("S") => w.last_summary = serde_json::from_str(it.next().unwrap_or("null")).ok(),
                    Some("A") => w.alloc_refused = true,
                    Some("E") => {}
                    _ => {}
                }
            }
            // exited?
            match w.child.try_wait() {
                Ok(Some(st)) => {
                    // drain remaining lines
                    std::thread::sleep(Duration::from_millis(20));
                    while let Ok(line) = w.rx.try_recv() {
                        if let Some(rest) = line.strip_prefix("S ") {
                            w.last_summary = serde_json::from_str(rest).ok();
                        } else if line.starts_with("A ") {
                            w.alloc_refused = true;
                        } else if let Some(rest) = line.strip_prefix("V ") {
                            let (head, detail) = rest.split_once('\t').unwrap_or((rest, ""));
                            let r: Vec<&str> = head.splitn(4, ' ').collect();
                            if r.len() == 4 {
                                let f = Found { sid: r[0].parse().unwrap_or(0), idx: r[1].parse().unwrap_or(0), seed: r[2].parse().unwrap_or(0), key: r[3].to_string(), detail: detail.to_string(), crash: None };
                                *found_counts.entry(f.key.clone()).or_insert(0) += 1;
                                found.entry(f.key.clone()).or_insert(f);
                            }
                        } else if let Some(rest) = line.strip_prefix("B ") {
                            let r: Vec<&str> = rest.split(' ').collect();
                            if r.len() == 2 {
                                w.last_b = Some((r[0].parse().unwrap_or(0), r[1].parse().unwrap_or(0)));
                            }
                        } else if let Some(rest) = line.strip_prefix("H ") {
                            harness_errors.push(rest.to_string());
                        }
                    }
                    w.done = true;
                    if let Some(s) = w.last_summary.take() {
                        summaries.push(s);
                    }
                    use std::os::unix::process::ExitStatusExt;
                    if st.code() == Some(3) {
                        // the worker abandoned a hung run (already reported as a violation line)
                        respawn.push((wi, w.last_b));
                    } else if !st.success() {
                        let sig = st.signal().unwrap_or(0);
                        if let Some((sid, idx)) = w.last_b {
                            let what = if w.alloc_refused { "alloc_refused".to_string() } else { format!("signal{sig}") };
                            let key = format!("{}:{}:crash_{}", def.id, def.strata[sid].name, what);
                            let cs = case_seed(seed, def.id, def.strata[sid].name, idx);
                            let f = Found { sid, idx, seed: cs, key: key.clone(), detail: format!("worker process died ({what}) while running this case"), crash: Some(sig) };
                            *found_counts.entry(key.clone()).or_insert(0) += 1;
                            found.entry(key).or_insert(f);
                            respawn.push((wi, Some((sid, idx))));
                        } else {
                            harness_errors.push(format!("worker {} died before its first case: {:?}", w.k, st));
                        }
                    }
                }
                Ok(None) => {
                    if w.last_b_at.elapsed() > hang_limit {
                        let _ = w.child.kill();
                        let _ = w.child.wait();
                        w.done = true;
                        if let Some(s) = w.last_summary.take() {
                            summaries.push(s);
                        }
                        if let Some((sid, idx)) = w.last_b {
                            let key = format!("{}:{}:hang_in_one_step", def.id, def.strata[sid].name);
                            let cs = case_seed(seed, def.id, def.strata[sid].name, idx);
                            let f = Found { sid, idx, seed: cs, key: key.clone(), detail: format!("a single scheduler step did not return within {}s (blocked thread or unbounded loop)", hang_limit.as_secs()), crash: Some(-1) };
                            *found_counts.entry(key.clone()).or_insert(0) += 1;
                            found.entry(key).or_insert(f);
                            respawn.push((wi, Some((sid, idx))));
                        }
                    }
                }
                Err(_) => {}
            }
        }
        for (wi, skip) in respawn {
            let k = workers[wi].k;
            let remaining = (budget_s - t0.elapsed().as_secs_f64()).max(5.0);
            // bound the number of worker deaths we are willing to absorb
            let deaths: u64 = found_counts.iter().filter(|(k, _)| k.contains(":crash_") || k.contains(":hang_")).map(|(_, v)| *v).sum();
            if deaths <= 200 {
                workers.push(spawn_worker(def, tier, seed, k, nworkers, remaining, &hashfiles[k as usize], skip));
            }
        }
        if all_done {
            break;
        }
        std::thread::sleep(Duration::from_millis(15));
    }

    // ---- 3. aggregate ---------------------------------------------------------------------------
    let mut runs = 0u64;
    let mut steps = 0u64;
    let mut sim_us = 0u64;
    let mut nontrivial_runs = 0u64;
    let mut skipped = 0u64;
    let mut recheck_n = 0u64;
    let mut recheck_mismatch = 0u64;
    let mut counters: BTreeMap<String, u64> = BTreeMap::new();
    let mut per_stratum = vec![0u64; def.strata.len()];
    let mut samples: Vec<Value> = Vec::new();
    let mut draws = [0u64; NSTREAMS];
    for s in &summaries {
        runs += s["runs"].as_u64().unwrap_or(0);
        steps += s["steps"].as_u64().unwrap_or(0);
        sim_us += s["sim_us"].as_u64().unwrap_or(0);
        nontrivial_runs += s["nontrivial_runs"].as_u64().unwrap_or(0);
        skipped += s["skipped_deadline"].as_u64().unwrap_or(0);
        recheck_n += s["recheck_n"].as_u64().unwrap_or(0);
        recheck_mismatch += s["recheck_mismatch"].as_u64().unwrap_or(0);
        if let Some(m) = s["counters"].as_object() {
            for (k, v) in m {
                *counters.entry(k.clone()).or_insert(0) += v.as_u64().unwrap_or(0);
            }
        }
        if let Some(a) = s["per_stratum"].as_array() {
            for (i, v) in a.iter().enumerate() {
                if i < per_stratum.len() {
                    per_stratum[i] += v.as_u64().unwrap_or(0);
                }
            }
        }
        if let Some(a) = s["samples"].as_array() {
            samples.extend(a.iter().cloned());
        }
        if let Some(a) = s["draws"].as_array() {
            for (i, v) in a.iter().enumerate().take(NSTREAMS) {
                draws[i] += v.as_u64().unwrap_or(0);
            }
        }
    }
    let mut distinct: HashSet<u64> = HashSet::new();
    for hf in &hashfiles {
        if let Ok(mut f) = std::fs::File::open(hf) {
            let mut b = Vec::new();
            let _ = f.read_to_end(&mut b);
            for c in b.chunks_exact(8) {
                distinct.insert(u64::from_le_bytes(c.try_into().unwrap()));
            }
        }
    }
    let _ = std::fs::remove_dir_all(&tmpdir);

    if !determinism_mismatch.is_empty() {
        let msg = format!("determinism recheck: {} re-executed cases behaved differently the second time within the same worker process, e.g. stratum {} idx {} seed {}", determinism_mismatch.len(), def.strata[determinism_mismatch[0].0].name, determinism_mismatch[0].1, determinism_mismatch[0].2);
        if std::env::var_os("ZSIM_STRICT_DETERMINISM").is_some() {
            harness_errors.push(msg);
        } else {
            // Either the library under test keeps state across runs (a static counter, a lazily
            // initialised global), which is none of the property's business, or the harness has a
            // nondeterminism bug. Neither makes a clean search unclean: every violation is confirmed
            // and recorded in a fresh process before it is reported, and replay always runs in a
            // fresh process. tools/determinism.sh (which sets ZSIM_STRICT_DETERMINISM) is the proof
            // of determinism for the unchanged tree.
            println!("note: {msg}; the library under test seems to keep state across runs of one process - violations are confirmed and recorded in fresh processes, so the verdict stands");
        }
    }

    // ---- 4. violations: confirm in a fresh process, minimise, write replay files ----------------
    let mut violation_lines: Vec<String> = Vec::new();
    let mut reported = 0;
    let replays_dir = vdir.join("replays");
    for (key, f) in &found {
        if masked.contains(key) {
            continue;
        }
        // the first few classes are minimised; further ones get an un-minimised (but confirmed)
        // replay file, so that every VIOLATION line names a file that reproduces
        let minimise_this = reported < env_u64("ZSIM_MAX_REPORT", 6);
        reported += 1;
        let st = &def.strata[f.sid];
        let raw_path = replays_dir.join(format!("{}-{}-{}.raw.json", def.id, sanitize(key.splitn(2, ':').nth(1).unwrap_or(key)), f.seed));
        let min_path = replays_dir.join(format!("{}-{}-{}.json", def.id, sanitize(key.splitn(2, ':').nth(1).unwrap_or(key)), f.seed));
        let _ = std::fs::create_dir_all(&replays_dir);
        if f.crash.is_some() {
            // the case kills the process: confirm by re-running it in a child, keep seed-based replay
            let status = run_child(Command::new(std::env::current_exe().unwrap()).args(["one", def.id, st.name, &f.idx.to_string(), &f.seed.to_string(), "--tier", tier.name()]), Duration::from_secs(60));
            use std::os::unix::process::ExitStatusExt;
            let died = matches!(&status, Some((s, _)) if s.signal().is_some()) || status.is_none();
            if !died {
                harness_errors.push(format!("crash of case {} idx {} did not recur in a fresh process", st.name, f.idx));
                continue;
            }
            // a crash replay carries empty tapes + seed: generation mode is used when all tapes are empty
            let rf = ReplayFile { property: def.id.into(), stratum: st.name.into(), idx: f.idx, seed: f.seed, tier, tapes: Default::default(), expect_key: key.clone(), expect_fingerprint: 0, detail: f.detail.clone(), minimised: false, crash: f.crash };
            rf.save(&min_path);
            println!("violation: {key}: {} ({} runs); case {} idx {} seed {}", f.detail, found_counts[key], st.name, f.idx, f.seed);
            violation_lines.push(format!("VIOLATION property={} replay={}", def.id, min_path.display()));
            continue;
        }
        // confirm + record in a fresh process; if this instance does not recur there, try the
        // other instances of the class that the workers reported
        let mut cands: Vec<Found> = vec![f.clone()];
        for a in alts.get(key).into_iter().flatten() {
            if !cands.iter().any(|c| (c.sid, c.idx, c.seed) == (a.sid, a.idx, a.seed)) && a.crash.is_none() {
                cands.push(a.clone());
            }
        }
        let mut confirmed: Option<ReplayFile> = None;
        for cand in &cands {
            let cst = &def.strata[cand.sid];
            let out = run_child(Command::new(std::env::current_exe().unwrap()).args(["one", def.id, cst.name, &cand.idx.to_string(), &cand.seed.to_string(), "--tier", tier.name(), "--record"]).arg(&raw_path), Duration::from_secs(90));
            if let (Some((_, stdout)), Ok(rf)) = (&out, ReplayFile::load(&raw_path)) {
                // the recorded run must show the same key
                let v: Value = serde_json::from_slice(stdout).unwrap_or(Value::Null);
                let keys: Vec<String> = v["violations"].as_array().map(|a| a.iter().filter_map(|x| x["key"].as_str().map(|s| s.to_string())).collect()).unwrap_or_default();
                if keys.iter().any(|k| k == key) {
                    let mut rf = rf;
                    rf.expect_key = key.clone();
                    rf.detail = v["violations"].as_array().and_then(|a| a.iter().find(|x| x["key"].as_str() == Some(key.as_str()))).and_then(|x| x["detail"].as_str()).unwrap_or(&cand.detail).to_string();
                    confirmed = Some(rf);
                    break;
                }
            }
            let _ = std::fs::remove_file(&raw_path);
        }
        let Some(mut rf) = confirmed else {
            harness_errors.push(format!("violation {key} (case {} idx {} seed {}, and {} further instances) did not recur in a fresh process: it cannot be replayed, so it is not reported as a violation", st.name, f.idx, f.seed, cands.len() - 1));
            let _ = std::fs::remove_file(&raw_path);
            continue;
        };
        // the tape replay itself must reproduce, then it is minimised: both in a child process (a
        // shrink candidate, or the recorded run, may kill the process it runs in)
        rf.save(&raw_path);
        let secs = env_u64("ZSIM_SHRINK_S", 12);
        let st = run_child(Command::new(std::env::current_exe().unwrap()).arg("confirm-shrink").arg(&raw_path).arg(&min_path).arg(secs.to_string()).arg(if minimise_this { "1" } else { "0" }), Duration::from_secs(secs * 4 + 120));
        let min = match st {
            Some((st, _)) if st.code() == Some(0) => match (ReplayFile::load(&raw_path), ReplayFile::load(&min_path)) {
                (Ok(r), Ok(m)) => {
                    rf = r;
                    m
                }
                _ => {
                    harness_errors.push(format!("violation {key}: the replay files written by the child cannot be read"));
                    continue;
                }
            },
            Some((st, _)) if st.code() == Some(4) => {
                harness_errors.push(format!("violation {key}: tape replay does not reproduce the recorded run"));
                let _ = std::fs::remove_file(&raw_path);
                continue;
            }
            _ => {
                // the child died or overran: keep the recorded run (with its fingerprint if the
                // child got that far)
                println!("note: minimisation of {key} did not finish in its child process; keeping the recorded (un-minimised) run");
                if let Ok(r) = ReplayFile::load(&raw_path) {
                    rf = r;
                }
                rf.clone()
            }
        };
        min.save(&min_path);
        // the file named in the VIOLATION line must reproduce in a fresh process; the minimised one
        // was found by in-process search, so check it there and fall back to the recorded run
        let fresh_ok = |p: &Path| match run_child(Command::new(std::env::current_exe().unwrap()).arg("replay").arg(p).arg("--quiet"), Duration::from_secs(90)) {
            Some((_, o)) => String::from_utf8_lossy(&o).lines().any(|l| l.starts_with("REPRODUCED")),
            None => false,
        };
        let min = if min.minimised && !fresh_ok(&min_path) {
            println!("note: the minimised replay of {key} does not reproduce in a fresh process; keeping the recorded (un-minimised) run");
            rf.save(&min_path);
            rf.clone()
        } else {
            min
        };
        let _ = std::fs::remove_file(&raw_path);
        let sizes: Vec<usize> = min.tapes.iter().map(|t| t.iter().filter(|x| **x != 0).count()).collect();
        if let Some(what) = stale_known.get(key) {
            println!("KNOWN-FINDING: property={} {} [key {}; met again by the search in {} runs, fresh minimised replay {}]", def.id, what, key, found_counts[key], min_path.display());
            known_reproduced.push(key.clone());
            continue;
        }
        println!("violation: {key}: {} ({} runs); {} replay has {:?} non-zero draws (plan/sched/io/select), was {:?}", min.detail, found_counts[key], if min.minimised { "minimised" } else { "un-minimised" }, sizes, rf.tapes.iter().map(|t| t.iter().filter(|x| **x != 0).count()).collect::<Vec<_>>());
        violation_lines.push(format!("VIOLATION property={} replay={}", def.id, min_path.display()));
    }
    if !violation_lines.is_empty() {
        exit_code = 1;
    }

    // ---- 5. evidence ----------------------------------------------------------------------------
    let wall = t0.elapsed().as_secs_f64();
    let faults: BTreeMap<&String, &u64> = counters.iter().filter(|(k, _)| k.starts_with("fault_")).collect();
    let probes: BTreeMap<&String, &u64> = counters.iter().filter(|(k, _)| !k.starts_with("fault_")).collect();
    let strata: Vec<Value> = def.strata.iter().enumerate().map(|(i, s)| {
        let planned = stratum_count(s, tier);
        let exh = match tier { Tier::Quick => s.exhaustive.0, Tier::Thorough => s.exhaustive.1 };
        json!({"name": s.name, "what": s.what, "planned": planned, "executed": per_stratum[i], "exhaustive": exh && per_stratum[i] == planned})
    }).collect();
    let all_exhaustive = def.strata.iter().enumerate().all(|(i, s)| (match tier { Tier::Quick => s.exhaustive.0, Tier::Thorough => s.exhaustive.1 }) && per_stratum[i] == stratum_count(s, tier));
    let ev = json!({
        "property_id": def.id,
        "tier": tier.name(),
        "seed": seed,
        "level": def.level,
        "coverage": {
            "evaluations": runs,
            "distinct_nontrivial": distinct.len(),
            "rule": def.rule,
            "samples": samples,
            "exhaustive": all_exhaustive,
            "strata": strata,
            "cases_planned": total_cases,
            "cases_skipped_at_deadline": skipped,
            "nontrivial_runs": nontrivial_runs,
            "steps_total": steps,
            "sim_time_ms_total": sim_us / 1000,
            "runs_per_hour": if wall > 0.0 { (runs as f64 / wall * 3600.0) as u64 } else { 0 },
            "faults_fired": faults,
            "probes": probes,
            "tape_draws": {"plan": draws[0], "sched": draws[1], "io": draws[2], "select": draws[3]},
            "determinism_recheck": {"n": recheck_n, "mismatches": recheck_mismatch},
            "known_findings_reproduced": known_reproduced,
            "violation_classes": found_counts,
            "workers": nworkers,
            "components": {
                "real": ["all of /repo/src compiled from the working tree (except lines gated on tokio/async-std features)", "asynchronous-codec", "bytes", "scc", "crossbeam-queue", "futures (select! shuffle source replaced by a tape)", "uuid", "rand", "regex", "parking_lot (wrapped: lock/unlock are preemption points)"],
                "simulated": ["task executor and scheduler", "timers / clock", "TCP and Unix listeners and streams", "unlink", "OS entropy (getrandom)"]
            }
        },
        "assumptions": def.assumptions,
        "wall_s": wall,
        "violations": violation_lines.len(),
    });
    let evp = vdir.join("evidence").join(format!("{}.json", def.id));
    let _ = std::fs::create_dir_all(evp.parent().unwrap());
    std::fs::write(&evp, serde_json::to_string_pretty(&ev).unwrap()).expect("write evidence");

    for l in &violation_lines {
        println!("{l}");
    }
    if !harness_errors.is_empty() {
        harness_errors.sort();
        harness_errors.dedup();
        for h in harness_errors.iter().take(10) {
            println!("HARNESS-ERROR {h}");
        }
        if exit_code == 0 {
            exit_code = 2;
        }
    }
    println!("{} {}: {} runs ({} distinct non-trivial), {} steps, {:.1}s wall, {} violation class(es), {} known finding(s) reproduced{}", def.id, tier.name(), runs, distinct.len(), steps, wall, violation_lines.len(), known_reproduced.len(), if skipped > 0 { format!(", {skipped} cases skipped at the wall-clock cap") } else { String::new() });
    if runs == 0 && exit_code == 0 {
        println!("HARNESS-ERROR no runs executed");
        exit_code = 2;
    }
    exit_code
}
