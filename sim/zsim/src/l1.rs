//! L1: component simulation of the private fair queue through `__verif::FairQueueProbe`.
//!
//! Scripted streams with ground-truth queues; a receiver modelled as a parked task (after
//! `Pending` it polls again only once its waker has fired, or spuriously); foreign atomic
//! actions — produce + fire the armed waker, insert a peer, close a peer, spurious/stale wakes —
//! run between receiver polls, inside every scripted `poll_next`, and at every mutex boundary of
//! the queue (the parking_lot shim's preemption points), i.e. also in the window in which
//! `poll_next` has a stream checked out and holds no lock. Oracles: C05 (exactly once, in order,
//! nothing invented), C06 (no lost wake-up at quiescence; bounded overtaking with deep queues).
use crate::fw::Ctx;
use futures::task::ArcWake;
use futures::Stream;
use std::cell::RefCell;
use std::collections::VecDeque;
use std::pin::Pin;
use std::sync::atomic::{AtomicU64, Ordering};
use std::sync::Arc;
use std::task::{Context, Poll, Waker};
use zeromq::__verif::{FairQueueHandle, FairQueueProbe};
use zmq_simrt as rt;
use zmq_simrt::Stream as Tape;

#[derive(Default)]
struct Peer {
    queue: VecDeque<u32>,
    armed: Option<Waker>,
    stale: Vec<Waker>,
    inserted: bool,
    closed: bool,
    ended: bool,
    removed: bool,
    produced: u32,
    delivered: u32,
    delivered_after_remove: u32,
    waiting: u64,
}

struct World {
    peers: Vec<Peer>,
    faults_on: bool,
    allow_spurious: bool,
    extra_tokens: u64,
    in_window_wakes: u64,
    in_window_inserts: u64,
    in_poll: bool,
    deliveries: Vec<u8>,
    pending_inserts: Vec<u8>,
    /// streams may run out of cooperative budget inside a poll of the queue: from then on every
    /// stream poll of that call wakes its caller and returns Pending (what a tokio transport does
    /// for a future driven by block_on)
    /// keys the queue has reported as closed (take_closed), in order
    closed_reported: Vec<u8>,
    coop_on: bool,
    exhausted: bool,
    refusals: u32,
    spun: bool,
}
thread_local! { static W: RefCell<Option<World>> = const { RefCell::new(None) }; }
thread_local! {
    /// set by the C16 stratum: peers close often (the judged clause there is the closed report)
    pub static CLOSE_HEAVY: std::cell::Cell<bool> = const { std::cell::Cell::new(false) };
    /// set by the C14 stratum: the receiving end changes hands in every run, and often
    pub static TAKEOVER_HEAVY: std::cell::Cell<bool> = const { std::cell::Cell::new(false) };
    /// 130..229 peers instead of 1..4 (anything the queue does per call "up to some number of
    /// streams" only shows with more streams than that number)
    pub static CROWD: std::cell::Cell<bool> = const { std::cell::Cell::new(false) };
}
fn w<R>(f: impl FnOnce(&mut World) -> R) -> R {
    W.with(|x| f(x.borrow_mut().as_mut().expect("l1 world")))
}

pub struct Scripted(u8);
impl Stream for Scripted {
    type Item = u32;
    fn poll_next(self: Pin<&mut Self>, cx: &mut Context<'_>) -> Poll<Option<u32>> {
        let id = self.0 as usize;
        let refuse = w(|w| {
            if !(w.coop_on && w.faults_on && w.in_poll) {
                return false;
            }
            if !w.exhausted && rt::draw_rare(Tape::Io, 2, 1, 10) == 1 {
                w.exhausted = true;
                rt::count("fault_coop_budget_exhausted");
            }
            if w.exhausted {
                w.refusals += 1;
            }
            w.exhausted
        });
        if refuse {
            if w(|w| w.refusals) > 20_000 {
                w(|w| w.spun = true);
                std::panic::resume_unwind(Box::new(rt::net::CoopSpin));
            }
            cx.waker().wake_by_ref();
            return Poll::Pending;
        }
        // a foreign action may land right before the stream looks at its queue ...
        act(foreign(true));
        let (res, old) = w(|w| {
            let p = &mut w.peers[id];
            if let Some(v) = p.queue.pop_front() {
                return (Poll::Ready(Some(v)), None);
            }
            if p.closed {
                p.ended = true;
                return (Poll::Ready(None), p.armed.take());
            }
            let old = p.armed.replace(cx.waker().clone());
            (Poll::Pending, old)
        });
        if let Some(o) = old {
            w(|w| {
                let p = &mut w.peers[id];
                if p.stale.len() < 2 {
                    p.stale.push(o);
                }
            });
        }
        // ... or right after it registered its waker (the classic lost-wake-up window)
        if res.is_pending() {
            act(foreign(true));
        }
        res
    }
}

struct RecvWaker(AtomicU64);
impl ArcWake for RecvWaker {
    fn wake_by_ref(a: &Arc<Self>) {
        a.0.fetch_add(1, Ordering::SeqCst);
    }
}

enum Act {
    Wake(Waker),
    Insert(u8),
    Nothing,
}

thread_local! { static HANDLE: RefCell<Option<FairQueueHandle<Scripted, u8>>> = const { RefCell::new(None) }; }

fn act(a: Act) {
    match a {
        Act::Wake(wk) => wk.wake(),
        Act::Insert(id) => {
            HANDLE.with(|h| {
                if let Some(h) = h.borrow().as_ref() {
                    h.insert(id, Scripted(id));
                }
            });
        }
        Act::Nothing => {}
    }
}

fn foreign(in_window: bool) -> Act {
    let on = w(|w| w.faults_on);
    if !on {
        return Act::Nothing;
    }
    // most points do nothing: keeps runs making progress between events
    if rt::draw_rare(Tape::Sched, 2, 1, if in_window { 6 } else { 1 }) == 0 && in_window {
        return Act::Nothing;
    }
    let kind = rt::draw(Tape::Sched, 10);
    let n = w(|w| w.peers.len()) as u64;
    let id = rt::draw(Tape::Sched, n) as usize;
    let burst = 1 + rt::draw(Tape::Sched, 4) as u32;
    w(|w| {
        let in_poll = w.in_poll;
        match kind {
            0..=5 => {
                let p = &mut w.peers[id];
                if !p.inserted || p.closed || p.removed {
                    return Act::Nothing;
                }
                for _ in 0..burst {
                    p.produced += 1;
                    p.queue.push_back((id as u32) << 24 | p.produced);
                }
                match p.armed.take() {
                    Some(wk) => {
                        if in_poll {
                            w.in_window_wakes += 1;
                        }
                        Act::Wake(wk)
                    }
                    None => Act::Nothing,
                }
            }
            6 => match (0..w.peers.len()).find(|i| !w.peers[*i].inserted) {
                Some(i) => {
                    w.peers[i].inserted = true;
                    if in_poll {
                        w.in_window_inserts += 1;
                    }
                    Act::Insert(i as u8)
                }
                None => Act::Nothing,
            },
            7 => {
                let p = &mut w.peers[id];
                // closes are rare: most runs keep at least two live peers for the fairness phase
                if p.inserted && !p.closed && (CLOSE_HEAVY.with(|c| c.get()) || burst == 1 && id % 2 == 1) {
                    p.closed = true;
                    if let Some(wk) = p.armed.take() {
                        return Act::Wake(wk);
                    }
                }
                Act::Nothing
            }
            8 if w.allow_spurious => {
                let p = &mut w.peers[id];
                if let Some(wk) = p.stale.pop() {
                    w.extra_tokens += 1;
                    rt::count("fault_stale_wake");
                    return Act::Wake(wk);
                }
                if let Some(wk) = p.armed.as_ref() {
                    w.extra_tokens += 1;
                    rt::count("fault_spurious_wake");
                    return Act::Wake(wk.clone());
                }
                Act::Nothing
            }
            _ => Act::Nothing,
        }
    })
}

pub fn run(ctx: &mut Ctx) {
    let crowd = CROWD.with(|c| c.get());
    let n = if crowd { 130 + ctx.plan(100) as usize } else { 1 + ctx.plan(4) as usize };
    let allow_spurious = ctx.plan_bool();
    let chaos = 60 + ctx.plan(600);
    let initially_inserted = if crowd { [n, n, n / 2, 0][ctx.plan(4) as usize] } else { ctx.plan(n as u64 + 1) as usize };
    let do_remove = ctx.plan(4) == 0;
    let coop_on = ctx.plan(3) == 1;
    W.with(|x| {
        *x.borrow_mut() = Some(World { peers: (0..n).map(|_| Peer::default()).collect(), faults_on: true, allow_spurious, extra_tokens: 0, in_window_wakes: 0, in_window_inserts: 0, in_poll: false, deliveries: vec![], pending_inserts: vec![], closed_reported: vec![], coop_on, exhausted: false, refusals: 0, spun: false })
    });
    let mut probe: FairQueueProbe<Scripted, u8> = FairQueueProbe::new(true);
    HANDLE.with(|h| *h.borrow_mut() = Some(probe.handle()));
    for i in 0..initially_inserted {
        w(|w| w.peers[i].inserted = true);
        act(Act::Insert(i as u8));
    }
    // every lock/unlock of the queue's mutex (when no other shim lock is held) is a preemption point
    zmq_sim_sync::set_preempt_hook(Some(Box::new(|_k| {
        rt::count("mutex_boundary_points");
        let a = foreign(true);
        act(a);
    })));
    // The receiver's waker. A recv future may be polled by one task, dropped, and the next one
    // polled by another task: the queue must wake whoever polled it LAST. In runs with
    // `change_waker` the receiver now and then comes back with a new waker, and only wake-ups of
    // the current one count (wake-ups of an earlier one reach nobody).
    let heavy = TAKEOVER_HEAVY.with(|c| c.get());
    let change_waker = ctx.plan(3) == 2 || heavy;
    let rw_cell: std::rc::Rc<RefCell<Arc<RecvWaker>>> = std::rc::Rc::new(RefCell::new(Arc::new(RecvWaker(AtomicU64::new(0)))));
    let mut seen = 0u64;
    let mut parked = false;
    let mut violations: Vec<(&'static str, String)> = Vec::new();

    let mut poll_once = |probe: &mut FairQueueProbe<Scripted, u8>, seen: &mut u64, parked: &mut bool, violations: &mut Vec<(&'static str, String)>, fairness_bound: Option<u64>| -> bool {
        let rw = rw_cell.borrow().clone();
        let waker = futures::task::waker(rw.clone());
        let mut cx = Context::from_waker(&waker);
        *seen = rw.0.load(Ordering::SeqCst);
        w(|w| w.in_poll = true);
        let r = std::panic::catch_unwind(std::panic::AssertUnwindSafe(|| probe.poll_next(&mut cx)));
        w(|w| {
            w.in_poll = false;
            w.exhausted = false;
            w.refusals = 0;
        });
        if r.is_ok() {
            let closed = probe.take_closed();
            w(|w| w.closed_reported.extend(closed));
        }
        let r = match r {
            Ok(r) => r,
            Err(p) => {
                if p.is::<rt::net::CoopSpin>() {
                    violations.push(("spins_when_stream_yields", "poll_next kept polling a stream that had told it to yield (20000 times within one call): the stream wakes its caller and returns Pending until the task goes back to the executor, as a tokio transport does once its cooperative budget is used up in a future driven by block_on; the call never returns".into()));
                    return false;
                }
                std::panic::resume_unwind(p);
            }
        };
        match r {
            Poll::Ready(Some((k, v))) => {
                *parked = false;
                w(|w| {
                    let nn = w.peers.len();
                    if (k as usize) >= nn {
                        violations.push(("unattributable", format!("delivery labelled with unknown key {k}")));
                        return;
                    }
                    let p = &mut w.peers[k as usize];
                    let expect = (k as u32) << 24 | (p.delivered + 1);
                    if v != expect {
                        let clause = if v >> 24 != k as u32 { "mislabelled" } else if (v & 0xff_ffff) <= p.delivered { "duplicate" } else { "lost_or_reordered" };
                        violations.push((clause, format!("peer {k}: delivered item {:#x}, expected {:#x}", v, expect)));
                    }
                    p.delivered += 1;
                    if p.removed {
                        p.delivered_after_remove += 1;
                    }
                    p.waiting = 0;
                    w.deliveries.push(k);
                    if let Some(bound) = fairness_bound {
                        for (i, q) in w.peers.iter_mut().enumerate() {
                            if i != k as usize && q.inserted && !q.removed && !q.queue.is_empty() {
                                q.waiting += 1;
                                if q.waiting > bound {
                                    violations.push(("starvation", format!("peer {i} has had an item queued during {} consecutive deliveries from other peers (bound {bound} for {nn} peers)", q.waiting)));
                                }
                            }
                        }
                    }
                });
                true
            }
            Poll::Ready(None) => {
                violations.push(("ended_while_blocking", "the queue returned None although it was created to block while it has no clients".into()));
                *parked = false;
                false
            }
            Poll::Pending => {
                *parked = true;
                false
            }
        }
    };

    // ---- phase 1: chaos -------------------------------------------------------------------------
    for _ in 0..chaos {
        // another task takes over the receiving end: a new recv call is a poll whether or not
        // anybody was woken, under a new waker
        let takeover = change_waker && rt::draw_rare(Tape::Sched, 2, 1, if heavy { 3 } else { 8 }) == 1;
        if takeover {
            *rw_cell.borrow_mut() = Arc::new(RecvWaker(AtomicU64::new(0)));
            seen = 0;
            rt::count("fault_receiver_changes_waker");
        }
        let woken = rw_cell.borrow().0.load(Ordering::SeqCst) != seen;
        let can_poll = takeover || !parked || woken || (allow_spurious && rt::draw_rare(Tape::Sched, 2, 1, 20) == 1);
        let d = rt::draw(Tape::Sched, 3);
        if can_poll && (takeover || d != 2) {
            poll_once(&mut probe, &mut seen, &mut parked, &mut violations, None);
        } else {
            act(foreign(false));
        }
        if violations.len() > 3 || w(|w| w.spun) {
            break;
        }
    }
    // optional removal of one peer between polls (what peer_disconnected does)
    if do_remove {
        let id = ctx.plan(n as u64) as usize;
        let ok = w(|w| {
            let p = &mut w.peers[id];
            if p.inserted && !p.removed {
                p.removed = true;
                true
            } else {
                false
            }
        });
        if ok {
            HANDLE.with(|h| h.borrow().as_ref().unwrap().remove(&(id as u8)));
            ctx.probe("peer_removed");
        }
    }
    // ---- phase 2: fairness with deep queues ------------------------------------------------------
    w(|w| w.faults_on = false);
    let extra = w(|w| w.extra_tokens);
    let live: Vec<usize> = w(|w| (0..w.peers.len()).filter(|i| w.peers[*i].inserted && !w.peers[*i].closed && !w.peers[*i].removed).collect());
    if crowd {
        // the crowd goes quiet (everything delivered, the receiver parked), then every peer speaks
        // at once, twice over
        for round in 0..2 {
            let mut guard = 0;
            loop {
                guard += 1;
                let woken = rw_cell.borrow().0.load(Ordering::SeqCst) != seen;
                if (parked && !woken) || guard > 200_000 {
                    break;
                }
                poll_once(&mut probe, &mut seen, &mut parked, &mut violations, None);
                if violations.len() > 3 || w(|w| w.spun) {
                    break;
                }
            }
            for &i in &live {
                let wk = w(|w| {
                    let p = &mut w.peers[i];
                    p.produced += 1;
                    p.queue.push_back((i as u32) << 24 | p.produced);
                    p.armed.take()
                });
                if let Some(wk) = wk {
                    wk.wake();
                }
            }
            if round == 0 {
                ctx.probe("crowd_speaks_after_a_quiet_moment");
            }
        }
    } else if live.len() >= 2 {
        let depth = 3 * n as u32 + 6;
        for &i in &live {
            let wk = w(|w| {
                let p = &mut w.peers[i];
                for _ in 0..depth {
                    p.produced += 1;
                    p.queue.push_back((i as u32) << 24 | p.produced);
                }
                p.waiting = 0;
                p.armed.take()
            });
            if let Some(wk) = wk {
                wk.wake();
            }
        }
        w(|w| {
            for p in w.peers.iter_mut() {
                p.waiting = 0;
            }
        });
        let bound = 2 * n as u64 + 2 + extra;
        let mut guard = 0;
        loop {
            guard += 1;
            let woken = rw_cell.borrow().0.load(Ordering::SeqCst) != seen;
            if parked && !woken {
                break;
            }
            if guard > 100_000 {
                violations.push(("no_quiescence", "receiver keeps being woken without end".into()));
                break;
            }
            poll_once(&mut probe, &mut seen, &mut parked, &mut violations, Some(bound));
            if violations.len() > 3 || w(|w| w.spun) {
                break;
            }
        }
        ctx.probe("fairness_phase");
    }
    // ---- phase 3: drain to quiescence -----------------------------------------------------------
    let mut guard = 0;
    loop {
        guard += 1;
        let woken = rw_cell.borrow().0.load(Ordering::SeqCst) != seen;
        if parked && !woken {
            break;
        }
        if guard > 200_000 {
            violations.push(("no_quiescence", "receiver keeps being woken without end".into()));
            break;
        }
        poll_once(&mut probe, &mut seen, &mut parked, &mut violations, None);
        if violations.len() > 3 || w(|w| w.spun) {
            break;
        }
    }
    zmq_sim_sync::set_preempt_hook(None);
    // ---- quiescence oracles ----------------------------------------------------------------------
    let aborted = violations.len() > 3 || w(|w| w.spun);
    let (iw, ii, dels) = w(|w| {
        for (i, p) in w.peers.iter().enumerate() {
            if aborted {
                // the drain was cut short by earlier violations: leftovers prove nothing
                break;
            }
            if p.inserted && !p.removed && !p.queue.is_empty() {
                violations.push(("lost_wakeup", format!("receiver is parked and has not been woken, yet peer {i} has {} undelivered items (its waker armed: {})", p.queue.len(), p.armed.is_some())));
            }
            // every stream whose end the queue has seen is reported as closed, once: that report is
            // what makes a socket release the peer
            let reports = w.closed_reported.iter().filter(|k| **k as usize == i).count();
            if p.ended && reports == 0 {
                violations.push(("ended_stream_not_reported_closed", format!("peer {i}'s stream ended (the queue polled it to None) but the queue never reported it as closed: a socket would keep the dead connection for ever")));
            }
            if reports > 1 || (reports == 1 && !p.ended) {
                violations.push(("closed_report_wrong", format!("peer {i}: reported as closed {reports} time(s), stream ended: {}", p.ended)));
            }
            if p.removed && p.delivered_after_remove > 0 {
                violations.push(("delivered_after_remove", format!("peer {i} was removed between polls but {} of its items were delivered afterwards", p.delivered_after_remove)));
            }
        }
        (w.in_window_wakes, w.in_window_inserts, w.deliveries.len())
    });
    for (c, d) in violations {
        ctx.violation(c, d);
    }
    ctx.probe_n("wake_while_in_poll", iw);
    ctx.probe_n("insert_while_in_poll", ii);
    ctx.probe_n("l1_deliveries", dels as u64);
    if iw + ii > 0 {
        ctx.nontrivial();
    }
    if ctx.want_sample {
        let d: Vec<String> = w(|w| w.deliveries.iter().take(40).map(|x| x.to_string()).collect());
        ctx.out.sample = Some(format!("fair queue with {n} scripted peers ({initially_inserted} inserted up front), spurious wakes {}, {chaos} chaos steps; {dels} deliveries, head: {}; in-poll wakes {iw}, in-poll inserts {ii}", allow_spurious, d.join("")));
    }
    // tear down inside the run thread: streams hold wakers that hold the queue
    HANDLE.with(|h| *h.borrow_mut() = None);
    drop(probe);
    W.with(|x| *x.borrow_mut() = None);
    ctx.check_panics();
}
