pub fn unused() {}
