//! Independent ZMTP 3.0 reference codec, written from RFC 23 (https://rfc.zeromq.org/spec/23/)
//! only. Shares no code with the library. Encoder for scripted peers, strict incremental decoder
//! for wire taps.
//!
//! greeting  = signature(10: FF 8*pad 7F) version(2) mechanism(20, NUL padded) as-server(1) filler(31 zero)
//! frame     = flags(1) size(1 | 8 BE) body     flags: bit0 MORE, bit1 LONG, bit2 COMMAND, bits 3-7 zero
//! command   = frame with COMMAND set, MORE clear; body = name-len(1) name data
//! READY data= *( name-len(1) name value-len(4 BE) value )

#[derive(Clone, Debug, PartialEq, Eq)]
pub enum Item {
    Greeting { version: (u8, u8), mechanism: Vec<u8>, as_server: bool },
    Command { name: Vec<u8>, data: Vec<u8> },
    Message(Vec<Vec<u8>>),
}

#[derive(Clone, Debug)]
pub struct Spanned {
    pub item: Item,
    pub start: usize,
    pub end: usize,
}

#[derive(Clone, Debug, Default)]
pub struct Parsed {
    pub items: Vec<Spanned>,
    /// bytes after the last complete item (start of an incomplete item), possibly 0
    pub partial: usize,
    /// frames of an incomplete multipart message already seen in full (inside `partial`)
    pub partial_frames: usize,
    /// first malformed position and reason; parsing stops there
    pub error: Option<(usize, String)>,
    /// offsets of frames that are legal but not in the canonical form a sender must use
    /// (long size for a body of at most 255 bytes)
    pub noncanonical: Vec<usize>,
}

impl Parsed {
    pub fn messages(&self) -> Vec<Vec<Vec<u8>>> {
        self.items.iter().filter_map(|s| if let Item::Message(m) = &s.item { Some(m.clone()) } else { None }).collect()
    }
    pub fn clean(&self) -> bool {
        self.error.is_none() && self.partial == 0 && self.noncanonical.is_empty()
    }
}

pub fn greeting(major: u8, minor: u8, mechanism: &[u8], as_server: bool) -> Vec<u8> {
    let mut g = vec![0u8; 64];
    g[0] = 0xff;
    g[9] = 0x7f;
    g[10] = major;
    g[11] = minor;
    let n = mechanism.len().min(20);
    g[12..12 + n].copy_from_slice(&mechanism[..n]);
    g[32] = as_server as u8;
    g
}
pub fn greeting_default() -> Vec<u8> {
    greeting(3, 0, b"NULL", false)
}

pub fn frame(body: &[u8], more: bool, command: bool) -> Vec<u8> {
    let mut f = Vec::with_capacity(body.len() + 9);
    let mut flags = 0u8;
    if more {
        flags |= 1;
    }
    if command {
        flags |= 4;
    }
    if body.len() > 255 {
        f.push(flags | 2);
        f.extend_from_slice(&(body.len() as u64).to_be_bytes());
    } else {
        f.push(flags);
        f.push(body.len() as u8);
    }
    f.extend_from_slice(body);
    f
}
/// frame forced into the long form whatever its length (legal to receive)
pub fn frame_long(body: &[u8], more: bool, command: bool) -> Vec<u8> {
    let mut f = Vec::with_capacity(body.len() + 9);
    let mut flags = 2u8;
    if more {
        flags |= 1;
    }
    if command {
        flags |= 4;
    }
    f.push(flags);
    f.extend_from_slice(&(body.len() as u64).to_be_bytes());
    f.extend_from_slice(body);
    f
}

pub fn command(name: &[u8], data: &[u8]) -> Vec<u8> {
    let mut body = Vec::with_capacity(1 + name.len() + data.len());
    body.push(name.len() as u8);
    body.extend_from_slice(name);
    body.extend_from_slice(data);
    frame(&body, false, true)
}
pub fn props(props: &[(&[u8], &[u8])]) -> Vec<u8> {
    let mut d = Vec::new();
    for (n, v) in props {
        d.push(n.len() as u8);
        d.extend_from_slice(n);
        d.extend_from_slice(&(v.len() as u32).to_be_bytes());
        d.extend_from_slice(v);
    }
    d
}
pub fn ready(p: &[(&[u8], &[u8])]) -> Vec<u8> {
    command(b"READY", &props(p))
}
pub fn ready_for(socket_type: &str, identity: Option<&[u8]>) -> Vec<u8> {
    match identity {
        Some(id) => ready(&[(b"Socket-Type", socket_type.as_bytes()), (b"Identity", id)]),
        None => ready(&[(b"Socket-Type", socket_type.as_bytes())]),
    }
}
pub fn encode_msg(frames: &[Vec<u8>]) -> Vec<u8> {
    let mut out = Vec::new();
    for (i, f) in frames.iter().enumerate() {
        out.extend(frame(f, i + 1 != frames.len(), false));
    }
    out
}

pub fn parse_props(mut d: &[u8]) -> Result<Vec<(Vec<u8>, Vec<u8>)>, String> {
    let mut out = Vec::new();
    while !d.is_empty() {
        let nl = d[0] as usize;
        if nl == 0 {
            return Err("property name of length 0".into());
        }
        if d.len() < 1 + nl + 4 {
            return Err("property name/length beyond command body".into());
        }
        let name = d[1..1 + nl].to_vec();
        let vl = u32::from_be_bytes([d[1 + nl], d[2 + nl], d[3 + nl], d[4 + nl]]) as usize;
        if d.len() < 5 + nl + vl {
            return Err("property value beyond command body".into());
        }
        out.push((name, d[5 + nl..5 + nl + vl].to_vec()));
        d = &d[5 + nl + vl..];
    }
    Ok(out)
}

/// Parse a connection's byte stream from its first byte (greeting first).
pub fn parse_stream(b: &[u8]) -> Parsed {
    parse_stream_opts(b, true)
}

pub fn parse_stream_opts(b: &[u8], expect_greeting: bool) -> Parsed {
    let mut p = Parsed::default();
    let mut pos = 0usize;
    if expect_greeting {
        if b.len() < 64 {
            // check the prefix we have
            if !b.is_empty() && b[0] != 0xff {
                p.error = Some((0, "greeting signature byte 0".into()));
            } else if b.len() > 9 && b[9] != 0x7f {
                p.error = Some((9, "greeting signature byte 9".into()));
            }
            p.partial = b.len();
            return p;
        }
        if b[0] != 0xff {
            p.error = Some((0, "greeting signature byte 0".into()));
            return p;
        }
        if b[9] != 0x7f {
            p.error = Some((9, "greeting signature byte 9".into()));
            return p;
        }
        let mech_field = &b[12..32];
        let mlen = mech_field.iter().position(|x| *x == 0).unwrap_or(20);
        if mech_field[mlen..].iter().any(|x| *x != 0) {
            p.error = Some((12 + mlen, "mechanism not NUL padded".into()));
            return p;
        }
        let mechanism = mech_field[..mlen].to_vec();
        if b[32] > 1 {
            p.error = Some((32, "as-server flag not 0/1".into()));
            return p;
        }
        if b[33..64].iter().any(|x| *x != 0) {
            p.error = Some((33, "greeting filler not zero".into()));
            return p;
        }
        p.items.push(Spanned { item: Item::Greeting { version: (b[10], b[11]), mechanism, as_server: b[32] == 1 }, start: 0, end: 64 });
        pos = 64;
    }
    let mut msg: Vec<Vec<u8>> = Vec::new();
    let mut msg_start = pos;
    loop {
        let item_start = if msg.is_empty() { pos } else { msg_start };
        if pos >= b.len() {
            p.partial = b.len() - item_start;
            p.partial_frames = msg.len();
            return p;
        }
        let flags = b[pos];
        if flags & 0xf8 != 0 {
            p.error = Some((pos, format!("reserved flag bits set: {flags:#04x}")));
            return p;
        }
        let more = flags & 1 != 0;
        let long = flags & 2 != 0;
        let cmd = flags & 4 != 0;
        if cmd && more {
            p.error = Some((pos, "command frame with MORE".into()));
            return p;
        }
        if cmd && !msg.is_empty() {
            p.error = Some((pos, "command frame inside a multipart message".into()));
            return p;
        }
        let hdr = if long { 9 } else { 2 };
        if b.len() < pos + hdr {
            p.partial = b.len() - item_start;
            p.partial_frames = msg.len();
            return p;
        }
        let len = if long {
            let mut x = [0u8; 8];
            x.copy_from_slice(&b[pos + 1..pos + 9]);
            u64::from_be_bytes(x)
        } else {
            b[pos + 1] as u64
        };
        if len > (1u64 << 40) {
            p.error = Some((pos, format!("absurd frame length {len}")));
            return p;
        }
        let len = len as usize;
        if long && len <= 255 {
            p.noncanonical.push(pos);
        }
        if b.len() < pos + hdr + len {
            p.partial = b.len() - item_start;
            p.partial_frames = msg.len();
            return p;
        }
        let body = &b[pos + hdr..pos + hdr + len];
        let fstart = pos;
        pos += hdr + len;
        if cmd {
            if body.is_empty() {
                p.error = Some((fstart, "empty command body".into()));
                return p;
            }
            let nl = body[0] as usize;
            if body.len() < 1 + nl {
                p.error = Some((fstart, "command name beyond body".into()));
                return p;
            }
            p.items.push(Spanned { item: Item::Command { name: body[1..1 + nl].to_vec(), data: body[1 + nl..].to_vec() }, start: fstart, end: pos });
        } else {
            if msg.is_empty() {
                msg_start = fstart;
            }
            msg.push(body.to_vec());
            if !more {
                p.items.push(Spanned { item: Item::Message(std::mem::take(&mut msg)), start: msg_start, end: pos });
            }
        }
    }
}

/// What a conforming library stream must start with: greeting 3.x NULL + READY with Socket-Type.
pub struct Hello {
    pub version: (u8, u8),
    pub mechanism: Vec<u8>,
    pub socket_type: Option<Vec<u8>>,
    pub identity: Option<Vec<u8>>,
    pub props: Vec<(Vec<u8>, Vec<u8>)>,
    pub end: usize,
}
pub fn parse_hello(p: &Parsed) -> Result<Hello, String> {
    let Some(Spanned { item: Item::Greeting { version, mechanism, .. }, .. }) = p.items.first() else {
        return Err("no greeting".into());
    };
    let Some(Spanned { item: Item::Command { name, data }, end, .. }) = p.items.get(1) else {
        return Err("no READY after greeting".into());
    };
    if name != b"READY" {
        return Err(format!("first command is {:?}, not READY", String::from_utf8_lossy(name)));
    }
    let props = parse_props(data)?;
    let get = |k: &[u8]| props.iter().find(|(n, _)| n.eq_ignore_ascii_case(k)).map(|(_, v)| v.clone());
    Ok(Hello { version: *version, mechanism: mechanism.clone(), socket_type: get(b"Socket-Type"), identity: get(b"Identity"), props: props.clone(), end: *end })
}
