//! Scenario registry: one PropDef per property, each a list of strata.
use crate::fw::PropDef;

pub mod c05;
pub mod recv;

pub fn all() -> Vec<PropDef> {
    vec![c05::def()]
}
