//! Scenario registry: one PropDef per property, each a list of strata.
use crate::fw::PropDef;

pub mod c05;
pub mod c06;
pub mod c07;
pub mod c08;
pub mod c09;
pub mod c10;
pub mod c14;
pub mod recv;

pub fn all() -> Vec<PropDef> {
    vec![c05::def(), c06::def(), c07::def(), c08::def(), c09::def(), c10::def(), c14::def()]
}
