//! C14 — dropping a pending recv loses nothing and leaves the socket usable.
use super::recv::{self, RecvCfg};
use crate::fw::{Ctx, PropDef, Stratum};
use crate::refcodec as rc;
use crate::socks::RECV_KINDS;
use crate::world::{self, from_zmq, show_msg, tag_of, tagged, to_zmq, RawPeer, SwarmOpts};
use std::cell::RefCell;
use std::rc::Rc;
use zeromq::prelude::*;
use zeromq::*;
use zmq_simrt as rt;

/// every fair-queue socket type: recv wrapped in "poll k times, then drop", any number of times,
/// while messages arrive under full segmentation; the C05 oracle must still hold
fn cancel_world(ctx: &mut Ctx) {
    let kind = RECV_KINDS[(ctx.idx % RECV_KINDS.len() as u64) as usize];
    let faults = ctx.idx % 12 >= 6;
    let out = recv::run(ctx, RecvCfg { kind, faults, cancel: true, max_senders: 3, max_msgs: 10, big: false, rejoin: false, long: (ctx.idx / 12) % 16 == 15 });
    recv::check_delivery(ctx, &out);
    ctx.check_panics();
}


/// "The socket's state is as if the abandoned call had not been made" for what a recv does besides
/// delivering: releasing peers that have closed. A peer closes; another peer's admission is held
/// up (it stops reading right after the handshake, so whatever the socket writes to it on
/// admission blocks); a recv is abandoned after k polls; afterwards the closed peer must still be
/// released by later recv calls, nothing may be lost, and the socket must be usable.
fn release_after_abandoned_recv(ctx: &mut Ctx) {
    world::swarm(ctx, SwarmOpts::default());
    let kind = RECV_KINDS[(ctx.idx % RECV_KINDS.len() as u64) as usize];
    let k = 1 + ctx.plan(3) as u32;
    let ntopics = 1 + ctx.plan(3) as usize;
    let eof_seen_first = ctx.plan(3) != 0;
    let topic_len = ctx.plan_pick(&[1usize, 200, 70_000]);
    let viol: Rc<RefCell<Vec<(&'static str, String)>>> = Rc::new(RefCell::new(Vec::new()));
    let done = Rc::new(RefCell::new(false));
    let (vl, dn) = (viol.clone(), done.clone());
    let old_conn: Rc<RefCell<Option<std::sync::Arc<rt::net::Conn>>>> = Rc::new(RefCell::new(None));
    let oc = old_conn.clone();
    rt::task::spawn_local("app", async move {
        let mut sock = crate::socks::AnySock::new(kind, None);
        if kind == crate::socks::Kind::Sub {
            let _ = sock.subscribe("").await;
            for t in 1..ntopics {
                let _ = sock.subscribe(&format!("{t}").repeat(topic_len)).await;
            }
        }
        let ep = sock.bind("tcp://127.0.0.1:0").await.expect("bind").to_string();
        let peer_type = kind.peers()[0];
        let msg = |o: u16, n: u32| -> Vec<Vec<u8>> {
            let mut m = if kind == crate::socks::Kind::Rep { vec![vec![]] } else { vec![] };
            let mut body = tagged(o, n, &[3]);
            if kind == crate::socks::Kind::Xpub {
                body[0].insert(0, 1);
            }
            m.extend(body);
            m
        };
        // P1 joins, is heard, closes
        let mut p1 = RawPeer::connect(&ep).expect("connect");
        if p1.hello(peer_type, None).await.is_err() {
            return world::park().await;
        }
        let _ = p1.send_msg(&msg(1, 0)).await;
        let mut got: Vec<(u16, u32)> = Vec::new();
        while let Some(r) = rt::future::or_idle(sock.recv()).await {
            if let Ok(m) = r {
                if let Some(t) = tag_of(&from_zmq(&m)) {
                    got.push(t);
                }
                if kind == crate::socks::Kind::Rep {
                    let _ = sock.send(to_zmq(&[b"r".to_vec()])).await;
                }
            }
        }
        *oc.borrow_mut() = Some(p1.conn.clone());
        p1.close();
        if eof_seen_first {
            // the end of P1's stream is consumed inside a recv that is still waiting
            let _ = rt::future::or_idle(sock.recv()).await;
        }
        // P2: everything the socket writes after its own greeting and READY is held up
        let mut p2 = RawPeer::connect(&ep).expect("connect");
        let hs = 64 + rc::ready_for(kind.name(), None).len();
        p2.conn.set_auto_drain(1, false);
        p2.conn.set_cap(1, hs);
        let _ = p2.hello(peer_type, None).await;
        rt::task::idle().await;
        rt::count("probe_admission_held_up");
        // the abandoned recv
        // (at most k polls; fewer if nothing wakes the call again)
        let r = rt::future::or_idle(rt::future::poll_budget(sock.recv(), k)).await.flatten();
        if r.is_none() {
            rt::count("probe_recv_abandoned_while_pending");
        }
        if let Some(Ok(m)) = r {
            if let Some(t) = tag_of(&from_zmq(&m)) {
                got.push(t);
            }
        }
        // P2 starts reading; later recv calls run to completion
        p2.conn.set_cap(1, 1 << 40);
        p2.conn.set_auto_drain(1, true);
        rt::task::idle().await;
        let _ = p2.send_msg(&msg(2, 0)).await;
        for _ in 0..3 {
            while let Some(r) = rt::future::or_idle(sock.recv()).await {
                if let Ok(m) = r {
                    if let Some(t) = tag_of(&from_zmq(&m)) {
                        got.push(t);
                    }
                    if kind == crate::socks::Kind::Rep {
                        let _ = sock.send(to_zmq(&[b"r".to_vec()])).await;
                    }
                }
            }
        }
        if got != vec![(1, 0), (2, 0)] {
            vl.borrow_mut().push(("lost_or_reordered", format!("{}: delivered {:?}, the two peers sent (1,0) and (2,0)", kind.name(), got)));
        }
        if kind == crate::socks::Kind::Sub {
            if let Err(e) = sock.subscribe("later").await {
                vl.borrow_mut().push(("socket_unusable_after_abandoned_recv", format!("SUB: subscribe() after the abandoned recv failed: {e} (a peer that closed its connection long ago is still in the peer table)")));
            }
        }
        rt::task::idle().await;
        *dn.borrow_mut() = true;
        world::park().await;
        drop(sock);
        drop(p2);
    });
    let end = ctx.sim.run(400_000);
    if end == rt::RunEnd::Budget {
        ctx.violation("no_quiescence", format!("{}: no quiescence", kind.name()));
    }
    ctx.check_panics();
    for (c, d) in viol.borrow().clone() {
        ctx.violation(&format!("{c}:{}", kind.name()), d);
    }
    if *done.borrow() {
        if let Some(c) = old_conn.borrow().as_ref() {
            if !c.released(1) {
                ctx.violation(&format!("closed_peer_not_released_after_abandoned_recv:{}", kind.name()), format!("{}: a peer closed its connection, a recv was abandoned after {k} poll(s) while another peer's admission was held up, and although later recv calls ran to completion the socket still holds the closed connection at quiescence", kind.name()));
            }
        }
        ctx.nontrivial();
    } else if end == rt::RunEnd::Quiescent && ctx.sim.rt.panics.borrow().is_empty() {
        ctx.violation("stuck", format!("{}: the scenario never completed", kind.name()));
    }
    if ctx.want_sample {
        ctx.out.sample = Some(format!("{}: peer closes, admission of another held up, recv abandoned after {k} polls (EOF consumed before: {eof_seen_first})", kind.name()));
    }
}


/// REP: a request has been handed out and its reply is owed; a further recv is started, polled k
/// times (with or without a second request arriving meanwhile) and abandoned. The owed reply must
/// still be accepted and reach the requester behind its envelope - the abandoned call changes nothing.
fn rep_owed_reply(ctx: &mut Ctx) {
    world::swarm(ctx, SwarmOpts::default());
    let k = ctx.plan(4) as u32;
    let depth = ctx.plan(3) as usize;
    let second_arrives = ctx.plan_bool();
    let viol: Rc<RefCell<Vec<(&'static str, String)>>> = Rc::new(RefCell::new(Vec::new()));
    let done = Rc::new(RefCell::new(false));
    let (vl, dn) = (viol.clone(), done.clone());
    rt::task::spawn_local("app", async move {
        let mut rep = RepSocket::new();
        let ep = rep.bind("tcp://127.0.0.1:0").await.expect("bind").to_string();
        let mut a = RawPeer::connect(&ep).expect("connect");
        let _ = a.hello("DEALER", None).await;
        let prefix: Vec<Vec<u8>> = (0..depth).map(|i| vec![b'i', i as u8 + 1]).collect();
        let mut q1 = prefix.clone();
        q1.push(vec![]);
        q1.extend(tagged(1, 0, &[3]));
        let _ = a.send_msg(&q1).await;
        match rep.recv().await {
            Ok(m) if tag_of(&from_zmq(&m)) == Some((1, 0)) => {}
            other => {
                vl.borrow_mut().push(("request_not_delivered", format!("first request: {:?}", other.map(|m| show_msg(&from_zmq(&m))))));
                return world::park().await;
            }
        }
        // another client, whose request may or may not arrive during the abandoned call
        let mut b = RawPeer::connect(&ep).expect("connect");
        let _ = b.hello("REQ", None).await;
        rt::task::idle().await;
        if second_arrives {
            let mut q2 = vec![vec![]];
            q2.extend(tagged(2, 0, &[3]));
            let _ = b.send_msg(&q2).await;
        }
        let abandoned = rt::future::or_idle(rt::future::poll_budget(rep.recv(), k)).await.flatten();
        if let Some(Ok(m)) = &abandoned {
            // the call completed after all (the second request was there): that is a received request,
            // the lock-step now owes a reply to B, not to A - nothing to judge about A here
            let _ = m;
            *dn.borrow_mut() = true;
            return world::park().await;
        }
        rt::count("probe_recv_abandoned_with_reply_owed");
        let reply = tagged(7, 0, &[4]);
        match rep.send(to_zmq(&reply)).await {
            Ok(()) => {}
            Err(e) => {
                vl.borrow_mut().push(("owed_reply_refused_after_abandoned_recv", format!("REP: a request was received, a further recv was polled {k} time(s) and abandoned, and the reply that was owed all along was refused: {e}")));
                return world::park().await;
            }
        }
        rt::task::idle().await;
        let mut expect = prefix.clone();
        expect.push(vec![]);
        expect.extend(reply.iter().cloned());
        let got = a.inbound().messages();
        if got.len() != 1 || got[0] != expect {
            vl.borrow_mut().push(("owed_reply_wrong_after_abandoned_recv", format!("REP: the reply owed to the first requester arrived on its connection as {:?}, expected {}", got.iter().map(|m| show_msg(m)).collect::<Vec<_>>(), show_msg(&expect))));
        }
        if !b.inbound().messages().is_empty() {
            vl.borrow_mut().push(("reply_leaked_to_other_connection", "REP: the other client received something although it was never answered".into()));
        }
        // and the second request (if any) is still there for the next recv
        if second_arrives {
            match rt::future::or_idle(rep.recv()).await {
                Some(Ok(m)) if tag_of(&from_zmq(&m)) == Some((2, 0)) => {}
                other => vl.borrow_mut().push(("lost_or_reordered", format!("REP: the second client's request was not delivered after the abandoned recv: {:?}", other.map(|r| r.map(|m| show_msg(&from_zmq(&m))).map_err(|e| e.to_string()))))),
            }
        }
        *dn.borrow_mut() = true;
        world::park().await;
        drop(rep);
        drop(a);
        drop(b);
    });
    let end = ctx.sim.run(300_000);
    if end == rt::RunEnd::Budget {
        ctx.violation("no_quiescence", "REP owed reply: no quiescence".into());
    }
    ctx.check_panics();
    for (c, d) in viol.borrow().clone() {
        ctx.violation(c, d);
    }
    if *done.borrow() {
        ctx.nontrivial();
    } else if end == rt::RunEnd::Quiescent && ctx.sim.rt.panics.borrow().is_empty() && viol.borrow().is_empty() {
        ctx.violation("stuck", "REP owed reply: the scenario never completed".into());
    }
    if ctx.want_sample {
        ctx.out.sample = Some(format!("REP: request with {depth} identity frames received, recv abandoned after {k} polls (second request arrives: {second_arrives}), then the owed reply"));
    }
}

/// REP, with history: the requester's first connection ends and the requester joins again under the
/// same identity, all of it while one recv call waits; that call hands out the request that arrives
/// on the new connection. With the reply owed, a further recv is polled k times and dropped. The
/// owed reply must still be accepted, and it goes to the connection that asked.
fn rep_owed_reply_one_recv_rejoin(ctx: &mut Ctx) {
    world::swarm(ctx, SwarmOpts::default());
    let k = 1 + ctx.plan(3) as u32;
    let how = ctx.plan(3);
    let gap = ctx.plan(6) as u32;
    let settle = ctx.plan_bool();
    let viol: Rc<RefCell<Vec<(&'static str, String)>>> = Rc::new(RefCell::new(Vec::new()));
    let done = Rc::new(RefCell::new(false));
    let (vl, dn) = (viol.clone(), done.clone());
    rt::task::spawn_local("app", async move {
        let mut rep = RepSocket::new();
        let ep = rep.bind("tcp://127.0.0.1:0").await.expect("bind").to_string();
        let mut p1 = RawPeer::connect(&ep).expect("connect");
        let _ = p1.hello("REQ", Some(b"same-id")).await;
        let mut q = vec![vec![]];
        q.extend(tagged(1, 0, &[3]));
        let _ = p1.send_msg(&q).await;
        match rep.recv().await {
            Ok(m) if tag_of(&from_zmq(&m)) == Some((1, 0)) => {}
            other => {
                vl.borrow_mut().push(("request_not_delivered", format!("first request: {:?}", other.map(|m| show_msg(&from_zmq(&m))))));
                return world::park().await;
            }
        }
        let _ = rep.send(to_zmq(&tagged(7, 0, &[4]))).await;
        rt::task::idle().await;
        let old_conn = p1.conn.clone();
        let ep2 = ep.clone();
        // beside the one waiting recv: the first connection ends, the requester joins again and asks
        let mover = rt::task::spawn_local("requester", async move {
            match how {
                0 => p1.close(),
                1 => {
                    p1.reset();
                    drop(p1);
                }
                _ => {
                    let mut q = vec![vec![]];
                    q.extend(tagged(1, 1, &[30]));
                    let enc = rc::encode_msg(&q);
                    let _ = p1.send(&enc[..enc.len() / 2]).await;
                    rt::count("fault_cut_mid_message");
                    p1.close();
                }
            }
            // (no idle barrier here: the application's waiting recv must stay one call)
            for _ in 0..gap + if settle { 40 } else { 0 } {
                rt::task::yield_now().await;
            }
            let mut p2 = RawPeer::connect(&ep2).expect("connect");
            let _ = p2.hello("REQ", Some(b"same-id")).await;
            for _ in 0..if settle { 40 } else { 0 } {
                rt::task::yield_now().await;
            }
            let mut q = vec![vec![]];
            q.extend(tagged(1, 7, &[3]));
            let _ = p2.send_msg(&q).await;
            p2
        });
        let mut calls = 0;
        let mut got = false;
        for _ in 0..4 {
            calls += 1;
            match rt::future::or_idle(rep.recv()).await {
                Some(Ok(m)) if tag_of(&from_zmq(&m)) == Some((1, 7)) => {
                    got = true;
                    break;
                }
                Some(_) => {}
                None => break,
            }
        }
        let Ok(p2) = mover.await else { return world::park().await };
        if !got {
            vl.borrow_mut().push(("rejoined_peer_not_heard", "REP: the request of the requester that joined again under its identity was never delivered".into()));
            *dn.borrow_mut() = true;
            return world::park().await;
        }
        if calls == 1 {
            rt::count("probe_one_recv_call_saw_the_end_the_rejoin_and_the_request");
        }
        let abandoned = rt::future::or_idle(rt::future::poll_budget(rep.recv(), k)).await.flatten();
        if abandoned.is_some() {
            *dn.borrow_mut() = true;
            return world::park().await;
        }
        rt::count("probe_recv_abandoned_with_reply_owed");
        let reply = tagged(7, 1, &[4]);
        if let Err(e) = rep.send(to_zmq(&reply)).await {
            vl.borrow_mut().push(("owed_reply_refused_after_abandoned_recv", format!("REP: the requester's first connection ended ({}) and it joined again under its identity while a recv waited ({calls} call(s) until its new request was handed out); a further recv was polled {k} time(s) and dropped; the reply that was owed all along was refused: {e}", ["close", "reset", "cut inside a message"][how as usize])));
            *dn.borrow_mut() = true;
            return world::park().await;
        }
        rt::task::idle().await;
        let mut expect = vec![vec![]];
        expect.extend(reply.iter().cloned());
        if p2.inbound().messages().last() != Some(&expect) {
            vl.borrow_mut().push(("owed_reply_wrong_after_abandoned_recv", format!("REP: the reply owed to the rejoined requester is not the last message on its new connection ({:?})", p2.inbound().messages().iter().map(|m| show_msg(m)).collect::<Vec<_>>())));
        }
        if rc::parse_stream(&old_conn.tap_from(1)).messages().len() > 1 {
            vl.borrow_mut().push(("reply_leaked_to_other_connection", "REP: the reply to the request on the new connection was written to the old one".into()));
        }
        *dn.borrow_mut() = true;
        world::park().await;
        drop(rep);
        drop(p2);
    });
    let end = ctx.sim.run(300_000);
    if end == rt::RunEnd::Budget {
        ctx.violation("no_quiescence", "REP owed reply after a rejoin: no quiescence".into());
    }
    ctx.check_panics();
    for (c, d) in viol.borrow().clone() {
        ctx.violation(c, d);
    }
    if *done.borrow() {
        ctx.nontrivial();
    } else if end == rt::RunEnd::Quiescent && ctx.sim.rt.panics.borrow().is_empty() && viol.borrow().is_empty() {
        ctx.violation("stuck", "REP owed reply after a rejoin: the scenario never completed".into());
    }
    if ctx.want_sample {
        ctx.out.sample = Some(format!("REP: requester leaves ({how}) and rejoins under its identity while a recv waits; recv abandoned after {k} polls with the reply owed"));
    }
}

/// the component simulation of the fair queue (3.9): in a third of its runs the receiving end is
/// taken over now and then by a new waker, which is what an abandoned recv followed by a recv in
/// another task (or under a combinator with its own wakers) looks like to the queue
fn l1_takeover(ctx: &mut Ctx) {
    crate::l1::TAKEOVER_HEAVY.with(|c| c.set(true));
    crate::l1::run(ctx);
}

#[derive(Default)]
struct ReqLog {
    events: Vec<String>,
    done: bool,
}

/// REQ: send q1, abandon recv after k polls, try to send q2 (must be refused), then recv must
/// return the reply to q1; a reply is never paired with a later request
fn req_abandon(ctx: &mut Ctx) {
    world::swarm(ctx, SwarmOpts::default());
    let rounds = 1 + ctx.plan(3) as usize;
    let budgets: Vec<u32> = (0..rounds).map(|_| ctx.plan(5) as u32).collect();
    let reply_delays: Vec<u32> = (0..rounds + 2).map(|_| ctx.plan(6) as u32).collect();
    let shapes: Vec<Vec<usize>> = (0..2 * rounds + 2).map(|_| (0..1 + ctx.plan(3)).map(|_| ctx.plan(300) as usize).collect()).collect();
    let log = Rc::new(RefCell::new(ReqLog::default()));
    let viol: Rc<RefCell<Vec<(&'static str, String)>>> = Rc::new(RefCell::new(Vec::new()));
    let (lg, vl) = (log.clone(), viol.clone());
    let budgets_s = budgets.clone();
    let probes = Rc::new(RefCell::new((0u32, 0u32)));
    let pr = probes.clone();
    rt::task::spawn_local("app", async move {
        let mut req = ReqSocket::new();
        let ep = req.bind("tcp://127.0.0.1:0").await.expect("bind").to_string();
        let mut peer = RawPeer::connect(&ep).expect("connect");
        peer.hello("REP", None).await.expect("hello");
        let conn = peer.conn.clone();
        // scripted REP: answers request #n with [empty, payload tagged (1, n)] after a delay
        rt::task::spawn_local("rep-peer", async move {
            let mut answered = 0usize;
            loop {
                if !peer.wait_messages(answered + 1).await {
                    break;
                }
                let msgs = peer.inbound().messages();
                while answered < msgs.len() {
                    let q = &msgs[answered];
                    let seq = tag_of(q).map(|t| t.1).unwrap_or(9999);
                    for _ in 0..reply_delays[answered.min(reply_delays.len() - 1)] {
                        rt::task::yield_now().await;
                    }
                    let mut r = vec![Vec::new()];
                    r.extend(tagged(1, seq, &[3]));
                    if peer.send_msg(&r).await.is_err() {
                        return world::park().await;
                    }
                    answered += 1;
                }
            }
        });
        // wait until the peer is admitted
        for _ in 0..200 {
            rt::task::idle().await;
            if conn.tap_len_from(1) > 64 {
                break;
            }
        }
        rt::task::idle().await;
        let mut next_seq = 0u32;
        let mut outstanding: Option<u32> = None; // sequence number of the accepted, unanswered request
        for round in 0..rounds {
            // 1. a legal request
            let q = tagged(0, next_seq, &shapes[(2 * round) % shapes.len()]);
            match req.send(to_zmq(&q)).await {
                Ok(()) => {
                    outstanding = Some(next_seq);
                    next_seq += 1;
                }
                Err(e) => {
                    vl.borrow_mut().push(("legal_send_refused", format!("round {round}: send with no request outstanding failed: {e}")));
                    break;
                }
            }
            // 2. abandon recv after k polls
            let k = budgets[round];
            let r = rt::future::poll_budget(req.recv(), k).await;
            match r {
                Some(Ok(m)) => {
                    let f = from_zmq(&m);
                    if tag_of(&f).map(|t| t.1) != outstanding {
                        vl.borrow_mut().push(("req_reply_mispaired", format!("round {round}: recv returned {} while request {:?} was outstanding", show_msg(&f), outstanding)));
                    }
                    outstanding = None;
                    lg.borrow_mut().events.push(format!("r{round}:completed-within-budget"));
                    continue;
                }
                Some(Err(e)) => {
                    vl.borrow_mut().push(("recv_error", format!("round {round}: recv failed: {e}")));
                    break;
                }
                None => {
                    rt::count("fault_recv_cancelled");
                    pr.borrow_mut().0 += 1;
                }
            }
            // 3. the request is still outstanding: another send must be refused, wire untouched
            let before = rc::parse_stream(&conn.tap_from(1)).messages().len();
            let q2 = tagged(0, next_seq, &shapes[(2 * round + 1) % shapes.len()]);
            let mut refused = true;
            match req.send(to_zmq(&q2)).await {
                Err(ZmqError::ReturnToSender { message, .. }) => {
                    if from_zmq(&message) != q2 {
                        vl.borrow_mut().push(("refused_message_not_intact", format!("round {round}: refused send handed back {} instead of {}", show_msg(&from_zmq(&message)), show_msg(&q2))));
                    }
                    pr.borrow_mut().1 += 1;
                }
                Err(e) => vl.borrow_mut().push(("refused_with_other_error", format!("round {round}: out-of-turn send failed with {e}"))),
                Ok(()) => {
                    refused = false;
                    vl.borrow_mut().push(("req_send_accepted_after_abandoned_recv", format!("round {round}: after abandoning recv (polled {k} times) a second request was accepted although request {:?} is unanswered", outstanding)));
                    // what the socket now believes: q2 is the outstanding request
                    outstanding = Some(next_seq);
                    next_seq += 1;
                }
            }
            rt::task::yield_now().await;
            let after = rc::parse_stream(&conn.tap_from(1)).messages().len();
            if after != before && refused {
                vl.borrow_mut().push(("refused_send_wrote_bytes", format!("round {round}: a refused send changed the wire ({before} -> {after} messages)")));
            }
            // 4. the owed recv
            match req.recv().await {
                Ok(m) => {
                    let f = from_zmq(&m);
                    if tag_of(&f).map(|t| t.1) != outstanding {
                        vl.borrow_mut().push(("req_reply_mispaired", format!("round {round}: recv returned {} but the outstanding request is {:?}", show_msg(&f), outstanding)));
                    }
                    outstanding = None;
                }
                Err(e) => {
                    vl.borrow_mut().push(("owed_recv_failed", format!("round {round}: recv after an abandoned recv failed: {e}")));
                    break;
                }
            }
        }
        lg.borrow_mut().done = true;
        futures::future::pending::<()>().await;
        drop(req);
    });
    let end = ctx.sim.run(200_000);
    if end == rt::RunEnd::Budget {
        ctx.violation("no_quiescence", "REQ abandon world did not become quiescent".into());
    }
    let v = viol.borrow().clone();
    let had_violation = !v.is_empty();
    for (c, d) in v {
        ctx.violation(c, d);
    }
    if !log.borrow().done && !had_violation && end == rt::RunEnd::Quiescent {
        ctx.violation("req_stuck", "the REQ application did not finish its script: a recv or send never completed although the partner always answers".into());
    }
    let p = probes.borrow();
    ctx.probe_n("req_recv_abandoned", p.0 as u64);
    ctx.probe_n("req_out_of_turn_send_refused", p.1 as u64);
    if p.0 > 0 {
        ctx.nontrivial();
    }
    if ctx.want_sample {
        ctx.out.sample = Some(format!("REQ vs scripted REP: {rounds} rounds, poll budgets {:?}, abandoned {} times, log {:?}", budgets_s, p.0, log.borrow().events));
    }
    ctx.check_panics();
}

pub fn def() -> PropDef {
    PropDef {
        id: "C14",
        level: "fault_enumeration",
        rule: "cancel_world: case index selects socket type (idx mod 6) and fault mix; the application wraps up to 24 recv calls in 'poll k times then drop' with k in 0..5 drawn per call while messages arrive under random segmentation, so cancellation points fall at arbitrary byte-arrival positions; release_after_abandoned_recv: socket type (6) x poll budget 1..3 x EOF consumed before or inside the abandoned call x 1..3 subscriptions of 1 B .. 70 kB (SUB): a peer closes, another peer stops reading right after the handshake so that whatever the socket writes on admission blocks, a recv is abandoned, the second peer resumes; at quiescence the closed connection must be released, both peers' messages delivered once, subscribe() must succeed; rep_owed_reply: REP has handed out a request (0..2 identity frames), a further recv is polled 0..3 times and abandoned (a second client's request arriving meanwhile or not), then the owed reply must be accepted, reach the first requester behind its envelope, and the second request must still be delivered; req_abandon: 1..3 rounds of send / abandoned recv (k in 0..4) / out-of-turn send / owed recv against a scripted REP with random reply delay; non-trivial = at least one recv future was actually dropped while pending; distinct = distinct (plan, schedule, transport) hashes",
        assumptions: &["the cancellation fault is 'drop the recv future after k polls', which is what select!, timeouts and proxy() do", "enumeration is over socket type x poll budget 0..5; byte-arrival positions are sampled by the transport knobs, not enumerated"],
        strata: vec![
            Stratum { name: "cancel_world", quick: 120_000, thorough: (2_000_000) * 3, exhaustive: (false, false), run: cancel_world, what: "PULL/SUB/DEALER/ROUTER/REP/XPUB with abandoned recvs; C05 oracle" },
            Stratum { name: "release_after_abandoned_recv", quick: 40_000, thorough: 2_000_000, exhaustive: (false, false), run: release_after_abandoned_recv, what: "a peer closes, another peer's admission is held up, a recv is abandoned after k polls: the closed peer is still released later, nothing is lost, SUB can still subscribe" },
            Stratum { name: "l1_takeover", quick: 200_000, thorough: 10_000_000, exhaustive: (false, false), run: l1_takeover, what: "fair-queue component simulation: a poll is abandoned and the next one comes under another waker (another task, FuturesUnordered): whoever polled last is the one that is woken" },
            Stratum { name: "rep_owed_reply_one_recv_rejoin", quick: 20_000, thorough: 1_000_000, exhaustive: (false, false), run: rep_owed_reply_one_recv_rejoin, what: "REP: while one recv call waits, the requester's connection ends (close, reset, cut) and the requester joins again under its identity and asks; with that reply owed a further recv is abandoned after 1..3 polls: the reply is accepted and goes to the new connection" },
            Stratum { name: "rep_owed_reply_after_rejoin", quick: 9_600, thorough: 800_000, exhaustive: (false, false), run: super::c16::rejoin_owed_reply, what: "REP: the requester left and came back under its identity (16 departure/rejoin histories); with the reply to its new request owed, a further recv is abandoned after 1..3 polls: the reply is still accepted and reaches the connection that asked" },
            Stratum { name: "rep_owed_reply", quick: 30_000, thorough: 1_500_000, exhaustive: (false, false), run: rep_owed_reply, what: "REP: with a reply owed, a further recv is abandoned after k polls: the owed reply is still accepted and reaches its requester" },
            Stratum { name: "req_abandon", quick: 60_000, thorough: (1_000_000) * 3, exhaustive: (false, false), run: req_abandon, what: "REQ protocol state after an abandoned recv" },
        ],
    }
}
