//! C03 — bytes from a peer can never crash the process or force unbounded allocation.
use crate::fw::{Ctx, PropDef, Stratum};
use crate::oracle;
use crate::refcodec as rc;
use crate::socks::{AnySock, Kind, ALL_KINDS};
use crate::world::{self, from_zmq, hex, tag_of, tagged, to_zmq, RawPeer, SwarmOpts};
use std::cell::RefCell;
use std::rc::Rc;
use zmq_simrt as rt;

pub const NATTACKS: u64 = 34;

fn be64(x: u64) -> Vec<u8> {
    x.to_be_bytes().to_vec()
}

/// structure-aware hostile byte strings (placed after the stage prefix)
fn attack(n: u64, ctx: &Ctx) -> (Vec<u8>, &'static str) {
    let mut ready = vec![5u8];
    ready.extend_from_slice(b"READY");
    match n {
        0 => (vec![4, 0], "zero-length command"),
        1 => (vec![4, 1, 5], "command name length beyond the frame"),
        2 => {
            let mut b = ready.clone();
            b.push(11);
            b.extend_from_slice(b"Socket-Ty");
            let mut f = vec![4, b.len() as u8];
            f.extend(b);
            (f, "property name length beyond the frame")
        }
        3 => {
            let mut b = ready.clone();
            b.push(11);
            b.extend_from_slice(b"Socket-Type");
            b.extend_from_slice(&[0, 0, 0xff, 0xff, b'P']);
            let mut f = vec![4, b.len() as u8];
            f.extend(b);
            (f, "property value length beyond the frame")
        }
        4 => {
            let mut b = ready.clone();
            b.extend_from_slice(&[2, 0xff, 0xfe, 0, 0, 0, 1, b'A']);
            let mut f = vec![4, b.len() as u8];
            f.extend(b);
            (f, "non-UTF-8 property name")
        }
        5..=9 => {
            let len = [1u64 << 31, 1 << 32, 1 << 40, 1 << 63, u64::MAX][(n - 5) as usize];
            let mut f = vec![2u8];
            f.extend(be64(len));
            f.extend_from_slice(b"xx");
            (f, "64-bit frame size (message frame)")
        }
        10 => {
            let mut f = Vec::new();
            for _ in 0..4000 {
                f.extend_from_slice(&[1, 0]);
            }
            f.extend_from_slice(&[0, 0]);
            (f, "4000 empty MORE frames in one segment")
        }
        11 => {
            let mut g = rc::greeting_default();
            g[0] = 0xfe;
            (g, "wrong signature byte 0")
        }
        12 => (rc::greeting(2, 1, b"NULL", false), "greeting version 2.1"),
        13 => (rc::greeting(3, 0, b"WEIRD", false), "unknown mechanism"),
        14 => {
            let len = 1 + ctx.plan(200) as usize;
            ((0..len).map(|_| ctx.plan(256) as u8).collect(), "random bytes")
        }
        15..=17 => {
            let len = [1u64 << 40, 1 << 63, u64::MAX][(n - 15) as usize];
            let mut f = vec![6u8];
            f.extend(be64(len));
            f.extend_from_slice(b"\x05READY");
            (f, "64-bit frame size (command frame)")
        }
        18 => (vec![0xf8, 1, b'x'], "reserved flag bits"),
        19 => {
            let mut b = ready.clone();
            b.extend_from_slice(&[0, 0, 0, 0, 0]);
            let mut f = vec![4, b.len() as u8];
            f.extend(b);
            (f, "zero-length property name")
        }
        20 => (vec![4, 3, 255, b'A', b'B'], "command name length 255 in a 3-byte frame"),
        21 => {
            let mut g = rc::greeting_default();
            g[9] = 0;
            (g, "wrong signature byte 9")
        }
        22 => {
            // a frame of 100 MB declared, 10 bytes sent: must reserve nothing
            let mut f = vec![2u8];
            f.extend(be64(100_000_000));
            f.extend_from_slice(&[7; 10]);
            (f, "100 MB frame declared, 10 bytes sent")
        }
        24..=30 => {
            // a huge frame is declared and a good part of it is really delivered: whatever the
            // decoder does once "enough" of a frame has arrived must still not be sized after the
            // declared length
            let (flag, len, body) = [
                (2u8, (1u64 << 63) + 0x1000, 300 << 10),
                (2, 1 << 40, 300 << 10),
                (2, 256 << 20, 300 << 10),
                (2, (1 << 63) + 0x1000, 1 << 20),
                (3, 256 << 20, 1 << 20),
                (6, 256 << 20, 300 << 10),
                (2, 64 << 20, 9000),
            ][(n - 24) as usize];
            let mut f = vec![flag];
            f.extend(be64(len));
            if flag == 6 {
                f.extend_from_slice(b"\x05READY");
            }
            f.extend(std::iter::repeat(7u8).take(body));
            (f, "huge frame declared and hundreds of KiB of it delivered")
        }
        31 | 32 => {
            // a long run of well-formed commands after which the message the socket may be waiting
            // for does arrive: whatever a socket does with a command it has no use for, it must
            // not cost stack or memory per command
            let (cnt, cmd): (usize, Vec<u8>) = if n == 31 { (3000, vec![4, 6, 5, b'R', b'E', b'A', b'D', b'Y']) } else { (30_000, rc::ready(&[(b"Socket-Type", b"DEALER"), (b"X-n", b"0123456789")])) };
            let mut f = Vec::with_capacity(cnt * cmd.len() + 16);
            for _ in 0..cnt {
                f.extend_from_slice(&cmd);
            }
            f.extend(rc::encode_msg(&[vec![], b"late".to_vec()]));
            (f, if n == 31 { "3000 bare READY commands and then a message" } else { "30000 READY commands with properties and then a message" })
        }
        33 => {
            // well-formed subscription traffic with filters of every relation to the topics the
            // application publishes afterwards (shorter / longer than the topic, sorting before /
            // after it, sharing a prefix with it, empty, 255 and 300 bytes, repeated, cancelled
            // without having been made): what a publisher does per subscription runs on bytes the
            // peer chose
            let mut f = Vec::new();
            let mut filters: Vec<Vec<u8>> = vec![vec![], b"AAAA".to_vec(), b"B".to_vec(), b"BB".to_vec(), b"C".to_vec(), vec![0], vec![0; 40], vec![0xff], vec![0xff; 9], vec![0xa5], vec![0xa5, 0x5a], vec![0xa5, 0x59, 0xff, 0xff, 0xff, 0xff, 0xff, 0xff, 0xff, 0xff, 0xff, 0xff, 0xff, 0xff, 0xff, 0xff, 0xff, 0xff, 0xff, 0xff, 0xff, 0xff], vec![0xa5, 0x5b], vec![b'Z'; 255], vec![b'A'; 300]];
            filters.push(b"AAAA".to_vec());
            for (i, t) in filters.iter().enumerate() {
                let mut m = vec![1u8];
                m.extend_from_slice(t);
                f.extend(rc::encode_msg(&[m]));
                if i % 4 == 3 {
                    let mut u = vec![0u8];
                    u.extend_from_slice(&filters[i - 1]);
                    f.extend(rc::encode_msg(&[u]));
                }
            }
            f.extend(rc::encode_msg(&[vec![0, b'n', b'o', b'n', b'e']]));
            (f, "a series of well-formed subscriptions and cancellations with filters around the published topics")
        }
        _ => {
            let mut f = Vec::new();
            for i in 0..1500u32 {
                f.extend_from_slice(&[1, 1, i as u8]);
            }
            f.extend_from_slice(&[0, 0]);
            (f, "1500 one-byte MORE frames in one segment")
        }
    }
}

const ALPHABET: [u8; 7] = [0x00, 0x01, 0x02, 0x04, 0x06, 0x05, 0xff];
pub const NALPHA: u64 = 7 + 49 + 343 + 2401 + 16807;
fn alpha_string(mut i: u64) -> Vec<u8> {
    let mut len = 1;
    let mut n = 7u64;
    while i >= n {
        i -= n;
        n *= 7;
        len += 1;
    }
    (0..len).map(|k| ALPHABET[((i / 7u64.pow(k)) % 7) as usize]).collect()
}

struct Out {
    healthy_sent: u32,
    healthy_got: u32,
    app_errors: u32,
    done: bool,
    attack_len: usize,
    max_req: usize,
    live: isize,
    send_ok: u32,
    send_err: u32,
}

fn run_attack(ctx: &mut Ctx, kind: Kind, stage: u64, bytes: Vec<u8>, what: String, close_after: bool) {
    run_attack_side(ctx, kind, stage, bytes, what, close_after, false)
}

/// `connecting`: the attacker sits behind a listener the victim socket connects to
fn run_attack_side(ctx: &mut Ctx, kind: Kind, stage: u64, bytes: Vec<u8>, what: String, close_after: bool, connecting: bool) {
    let out = Rc::new(RefCell::new(Out { healthy_sent: 0, healthy_got: 0, app_errors: 0, done: false, attack_len: bytes.len(), max_req: 0, live: 0, send_ok: 0, send_err: 0 }));
    let o2 = out.clone();
    let peer_type = kind.peers()[0];
    let shown = hex(&bytes);
    rt::task::spawn_local("app", async move {
        let mut sock = AnySock::new(kind, None);
        let ep = sock.bind("tcp://127.0.0.1:0").await.expect("bind").to_string();
        // the healthy peer, admitted first
        let mut healthy = RawPeer::connect(&ep).expect("connect");
        healthy.hello(peer_type, Some(b"healthy")).await.expect("hello");
        if matches!(kind, Kind::Pub | Kind::Xpub) {
            healthy.send_msg(&[vec![1]]).await.expect("subscribe");
            healthy.conn.set_io(1, |io| io.wyield_pm = 0);
            healthy.conn.set_cap(1, 1 << 40);
        }
        rt::task::idle().await;
        let hmsg = |n: u32| -> Vec<Vec<u8>> {
            let mut m = if matches!(kind, Kind::Rep | Kind::Req) { vec![vec![]] } else { vec![] };
            m.extend(tagged(7, n, &[4]));
            m
        };
        // one exchange with the healthy peer, before / after the attack
        async fn exchange(sock: &mut AnySock, healthy: &mut RawPeer, kind: Kind, n: u32, m: Vec<Vec<u8>>, o: &Rc<RefCell<Out>>) {
            if kind.has_recv() && kind != Kind::Req {
                if healthy.send_msg(&m).await.is_err() {
                    return;
                }
                o.borrow_mut().healthy_sent += 1;
                // drain until the healthy message shows up (errors from the attacker may come first)
                for _ in 0..40 {
                    match rt::future::or_idle(sock.recv()).await {
                        Some(Ok(got)) => {
                            let f = from_zmq(&got);
                            if tag_of(&f) == Some((7, n)) {
                                o.borrow_mut().healthy_got += 1;
                                if kind == Kind::Rep {
                                    let _ = sock.send(to_zmq(&[b"r".to_vec()])).await;
                                }
                                return;
                            }
                            if kind == Kind::Rep {
                                let _ = sock.send(to_zmq(&[b"r".to_vec()])).await;
                            }
                        }
                        Some(Err(_)) => {
                            o.borrow_mut().app_errors += 1;
                            rt::task::yield_now().await;
                        }
                        None => return,
                    }
                }
            } else if kind.has_send() {
                if matches!(kind, Kind::Pub | Kind::Xpub) {
                    // publishers also publish short topics: matching runs against every subscription
                    // a peer has registered
                    for t in [&b""[..], b"B", b"A", b"\xff", b"\xa5\x5a"] {
                        let _ = sock.send(to_zmq(&[t.to_vec()])).await;
                    }
                }
                let body = tagged(7, n, &[4]);
                let msg = if kind == Kind::Router { vec![b"healthy".to_vec(), body[0].clone()] } else { body };
                match sock.send(to_zmq(&msg)).await {
                    Ok(()) => o.borrow_mut().send_ok += 1,
                    Err(_) => o.borrow_mut().send_err += 1,
                }
                if kind == Kind::Req {
                    let _ = healthy.send_msg(&[vec![], b"ok".to_vec()]).await;
                    let _ = rt::future::or_idle(sock.recv()).await;
                }
            }
        }
        exchange(&mut sock, &mut healthy, kind, 0, hmsg(0), &o2).await;
        // the attacker
        let mut prefix = Vec::new();
        if stage >= 1 {
            prefix.extend(rc::greeting_default());
        }
        if stage >= 2 {
            prefix.extend(rc::ready_for(peer_type, Some(b"attacker")));
        }
        let mut listener_keep = None;
        if connecting {
            // the victim connects out; the attacker accepts and plays its bytes on its own task
            let (l, lep) = crate::world::RawListener::bind("tcp://127.0.0.1:0").expect("listen");
            let (prefix2, bytes2) = (prefix.clone(), bytes.clone());
            let acc = rt::task::spawn_local("attacker-acceptor", async move {
                let mut p = l.accept().await.expect("accept");
                let _ = p.send(&prefix2).await;
                let _ = p.send(&bytes2).await;
                if close_after {
                    for _ in 0..3 {
                        rt::task::yield_now().await;
                    }
                    p.close();
                    (None, l)
                } else {
                    (Some(p), l)
                }
            });
            oracle::alloc_mark();
            // connect() returns when the handshake completes or fails; with a stalling attacker
            // it never does, so it is abandoned once the world is quiet
            let _ = rt::future::or_idle(sock.connect(&lep)).await;
            let (p, l) = acc.await.expect("acceptor");
            listener_keep = Some((p, l));
            rt::task::idle().await;
            exchange(&mut sock, &mut healthy, kind, 1, hmsg(1), &o2).await;
            exchange(&mut sock, &mut healthy, kind, 2, hmsg(2), &o2).await;
        } else {
            let mut attacker = RawPeer::connect(&ep).expect("connect");
            if !prefix.is_empty() {
                let _ = attacker.send(&prefix).await;
                if stage >= 2 {
                    rt::task::idle().await;
                }
            }
            oracle::alloc_mark();
            let _ = attacker.send(&bytes).await;
            rt::task::idle().await;
            // give every reading path a chance: receiving sockets parse inside recv
            exchange(&mut sock, &mut healthy, kind, 1, hmsg(1), &o2).await;
            if close_after {
                attacker.close();
                rt::task::idle().await;
                exchange(&mut sock, &mut healthy, kind, 2, hmsg(2), &o2).await;
            } else {
                exchange(&mut sock, &mut healthy, kind, 2, hmsg(2), &o2).await;
                drop(attacker);
            }
        }
        let (live, _peak, maxreq) = oracle::alloc_stats();
        oracle::alloc_stop();
        {
            let mut o = o2.borrow_mut();
            o.max_req = maxreq;
            o.live = live;
            o.done = true;
        }
        world::park().await;
        drop(sock);
        drop(healthy);
        drop(listener_keep);
    });
    let end = ctx.sim.run(400_000);
    oracle::alloc_stop();
    let o = out.borrow();
    let tag = format!("{}{} attacked at stage {} with {} ({} bytes: {})", kind.name(), if connecting { " (connecting out to the attacker)" } else { "" }, ["first bytes", "after greeting", "after handshake"][stage as usize], what, o.attack_len, shown);
    if end == rt::RunEnd::Budget {
        ctx.violation("no_quiescence", format!("{tag}: the socket spins"));
    }
    ctx.check_panics();
    if o.done {
        let bound = (256 << 10) + 64 * o.attack_len;
        if o.max_req > bound {
            ctx.violation("allocation_out_of_proportion", format!("{tag}: a single allocation of {} bytes was requested after {} hostile bytes (bound {bound})", o.max_req, o.attack_len));
        }
        if kind.has_recv() && kind != Kind::Req && o.healthy_got < o.healthy_sent {
            ctx.violation("healthy_peer_affected", format!("{tag}: only {} of {} messages of the healthy peer were delivered afterwards ({} errors returned)", o.healthy_got, o.healthy_sent, o.app_errors));
        }
        ctx.nontrivial();
    } else if end == rt::RunEnd::Quiescent && ctx.sim.rt.panics.borrow().is_empty() {
        ctx.violation("stuck", format!("{tag}: the application's exchange with the healthy peer never completed"));
    }
    if ctx.want_sample {
        ctx.out.sample = Some(tag);
    }
}

fn catalogue(ctx: &mut Ctx) {
    let kind = ALL_KINDS[(ctx.idx % 9) as usize];
    let stage = (ctx.idx / 9) % 3;
    let a = (ctx.idx / 27) % NATTACKS;
    let disturbed = ctx.idx >= 27 * NATTACKS;
    if disturbed {
        // attacks that deliver hundreds of KiB are not combined with one-byte chunking: a million
        // reads exceed the step budget without telling anything about the property
        world::swarm(ctx, SwarmOpts { tiny_chunks: !(24..=32).contains(&a), ..SwarmOpts::default() });
    } else {
        world::plain(ctx);
    }
    let (bytes, what) = attack(a, ctx);
    let close_after = (ctx.idx / (27 * NATTACKS)) % 2 == 1;
    // every fourth pass over the grid puts the attacker behind a listener the victim connects to
    let connecting = (ctx.idx / (27 * NATTACKS)) % 4 >= 2;
    ctx.out.extra_shape = ctx.idx % (27 * NATTACKS) + if connecting { 1 << 20 } else { 0 };
    run_attack_side(ctx, kind, stage, bytes, what.to_string(), close_after, connecting);
}

fn alphabet(ctx: &mut Ctx) {
    // thorough: the index enumerates (string, stage in {after greeting, after handshake}); the
    // socket kind rotates with the index. quick: a pseudo-random sample of that space
    let space = NALPHA * 2;
    let x = if ctx.tier == crate::fw::Tier::Quick { rt::tape::mix(ctx.idx, 3) % space } else { ctx.idx % space };
    let s = alpha_string(x % NALPHA);
    let stage = 1 + x / NALPHA;
    let kind = ALL_KINDS[((ctx.idx / 7) % 9) as usize];
    world::plain(ctx);
    ctx.out.extra_shape = x;
    let what = format!("alphabet string {}", hex(&s));
    run_attack(ctx, kind, stage, s, what, x % 2 == 0);
}

fn mutated(ctx: &mut Ctx) {
    // random mutations of a valid stream: flip / insert / delete / truncate
    let kind = ALL_KINDS[(ctx.idx % 9) as usize];
    world::swarm(ctx, SwarmOpts::default());
    let mut s = Vec::new();
    s.extend(rc::ready_for(kind.peers()[0], Some(b"attacker")));
    for i in 0..1 + ctx.plan(3) {
        let mut m = if matches!(kind, Kind::Rep | Kind::Req) { vec![vec![]] } else { vec![] };
        m.extend(tagged(9, i as u32, &[ctx.plan(300) as usize, ctx.plan(10) as usize]));
        s.extend(rc::encode_msg(&m));
    }
    for _ in 0..1 + ctx.plan(4) {
        if s.is_empty() {
            break;
        }
        let p = ctx.plan(s.len() as u64) as usize;
        match ctx.plan(4) {
            0 => s[p] ^= 1 << ctx.plan(8),
            1 => s.insert(p, ctx.plan(256) as u8),
            2 => {
                s.remove(p);
            }
            _ => s.truncate(p.max(1)),
        }
    }
    let close_after = ctx.plan_bool();
    let connecting = ctx.plan(4) == 0;
    run_attack_side(ctx, kind, 1, s, "mutated valid stream".into(), close_after, connecting);
}


/// READY commands whose property names / values are edge cases of the property grammar
const PROP_NAMES: [&[u8]; 18] = [b"", b"-", b"X-", b"-Type", b"Socket--Type", b"socket-type", b"SOCKET-TYPE", b"Identity", b"identity", b"X-\xc3\xa9", b"\xc3\xa9a", b"a", b"Resource", b"X- ", b"X\0Y", b"Socket-Type", b"\xff\xfe", b"--"];
fn prop_names(ctx: &mut Ctx) {
    let kind = ALL_KINDS[(ctx.idx % 9) as usize];
    let name = PROP_NAMES[((ctx.idx / 9) % PROP_NAMES.len() as u64) as usize];
    let stage = 1 + (ctx.idx / (9 * PROP_NAMES.len() as u64)) % 2; // in the handshake READY / in a later READY
    let vlen = [0usize, 1, 3, 255, 256][((ctx.idx / (18 * PROP_NAMES.len() as u64)) % 5) as usize];
    let connecting = (ctx.idx / (90 * PROP_NAMES.len() as u64)) % 2 == 1;
    if ctx.idx < 180 * PROP_NAMES.len() as u64 {
        world::plain(ctx);
    } else {
        world::swarm(ctx, SwarmOpts::default());
    }
    let value: Vec<u8> = (0..vlen).map(|i| b'A' + (i % 26) as u8).collect();
    let peer_type = kind.peers()[0];
    // the odd property sits next to a proper Socket-Type (before or after it)
    let st: (&[u8], &[u8]) = (b"Socket-Type", peer_type.as_bytes());
    let odd: (&[u8], &[u8]) = (name, &value);
    let bytes = if ctx.idx % 2 == 0 { rc::ready(&[st, odd]) } else { rc::ready(&[odd, st]) };
    ctx.out.extra_shape = ctx.idx % (180 * PROP_NAMES.len() as u64);
    let what = format!("READY with a property named {:?} ({} value bytes)", String::from_utf8_lossy(name), vlen);
    run_attack_side(ctx, kind, stage, bytes, what, ctx.idx % 3 == 0, connecting);
}

/// Command frames named after every command of the ZMTP 3.x family (base protocol, 3.1 heartbeats,
/// the PLAIN/CURVE mechanisms, RADIO/DISH) with bodies of every small length: a command the library
/// knows, or comes to know, must not trust its body to be as long as its grammar says.
const CMD_NAMES: [&[u8]; 16] = [b"READY", b"ERROR", b"PING", b"PONG", b"SUBSCRIBE", b"CANCEL", b"HELLO", b"WELCOME", b"INITIATE", b"MESSAGE", b"JOIN", b"LEAVE", b"ping", b"Ready", b"", b"READYX"];
const CMD_BODY_LENS: u64 = 24;
fn cmd_names(ctx: &mut Ctx) {
    let kind = ALL_KINDS[(ctx.idx % 9) as usize];
    let name = CMD_NAMES[((ctx.idx / 9) % CMD_NAMES.len() as u64) as usize];
    let mut i = ctx.idx / (9 * CMD_NAMES.len() as u64);
    let blen = (i % CMD_BODY_LENS) as usize;
    i /= CMD_BODY_LENS;
    let pattern = i % 3;
    i /= 3;
    let long = i % 2 == 1;
    i /= 2;
    let stage = 1 + i % 2; // in place of the handshake READY / after the handshake
    i /= 2;
    let connecting = i % 2 == 1;
    let grid = 9 * CMD_NAMES.len() as u64 * CMD_BODY_LENS * 3 * 2 * 2 * 2;
    if ctx.idx < grid {
        world::plain(ctx);
    } else {
        world::swarm(ctx, SwarmOpts::default());
    }
    let body: Vec<u8> = (0..blen).map(|k| match pattern { 0 => 0u8, 1 => 0xff, _ => 1 + k as u8 }).collect();
    let mut cmd = vec![name.len() as u8];
    cmd.extend_from_slice(name);
    cmd.extend_from_slice(&body);
    let mut f = if long { let mut h = vec![0x06]; h.extend(be64(cmd.len() as u64)); h } else { vec![0x04, cmd.len() as u8] };
    f.extend(cmd);
    // followed by ordinary traffic, so that a command that is tolerated is also survived
    let mut m = if matches!(kind, Kind::Rep | Kind::Req) { vec![vec![]] } else { vec![] };
    m.push(b"after".to_vec());
    f.extend(rc::encode_msg(&m));
    ctx.out.extra_shape = ctx.idx % grid;
    let what = format!("command {:?} with a body of {} bytes (pattern {}, {} form)", String::from_utf8_lossy(name), blen, pattern, if long { "long" } else { "short" });
    run_attack_side(ctx, kind, stage, f, what, ctx.idx % 3 == 0, connecting);
}

pub fn def() -> PropDef {
    PropDef {
        id: "C03",
        level: "exploration",
        rule: "catalogue: the case index enumerates socket kind (9) x stage {first bytes, after a valid greeting, after a valid handshake} x 34 structure-aware attacks (a series of well-formed subscriptions and cancellations with filters around the topics published afterwards, long runs of well-formed commands after the handshake, truncated/oversized commands, property lengths beyond the frame, non-UTF-8 names, 64-bit sizes 2^31..2^64-1 on message and command frames, thousands of MORE frames in one segment, huge declared frames of which 9 KiB .. 1 MiB are really delivered, bad signature/version/mechanism, reserved flags, random bytes), first undisturbed then under drawn transport/schedule, with and without a closing attacker; alphabet: all 19607 strings of length <= 5 over {00,01,02,04,06,05,ff} x {after greeting, after handshake} (thorough: enumerated; quick: sampled); mutated: random mutations of a valid stream; cmd_names: command frames named after each command of the ZMTP 3.x family (READY, ERROR, PING, PONG, SUBSCRIBE, CANCEL, HELLO, WELCOME, INITIATE, MESSAGE, JOIN, LEAVE and misspellings) with bodies of 0..23 bytes in three byte patterns, short and long form, in place of the handshake READY or after it; a healthy peer exchanges tagged traffic before and after; oracles: no panic in any task or API call, worker process survives (stack overflow / abort are seen as signals by the driver), largest single allocation after the first hostile byte <= 256 KiB + 64 x bytes sent, healthy traffic still delivered; non-trivial = judgement reached; distinct = distinct (case, plan, schedule, transport)",
        assumptions: &["run thread stack 2 MiB (tokio's worker default) and the library built unoptimised with debug assertions: both are documented parameters of the stack-depth clause", "allocation failure itself is not injected; the size of requests is judged"],
        strata: vec![
            Stratum { name: "catalogue", quick: 27 * NATTACKS * 8, thorough: (27 * NATTACKS * 200) * 10, exhaustive: (true, true), run: catalogue, what: "kind x stage x attack catalogue" },
            Stratum { name: "alphabet", quick: 30_000, thorough: NALPHA * 2 * 2, exhaustive: (false, true), run: alphabet, what: "all strings <= 5 over a reduced alphabet of flag/length/command bytes" },
            Stratum { name: "prop_names", quick: 180 * 18 * 3, thorough: 180 * 18 * 60, exhaustive: (true, true), run: prop_names, what: "READY property names and values at the edges of the grammar x stage x side x socket type" },
            Stratum { name: "cmd_names", quick: 9 * 16 * 24 * 3 * 2 * 2 * 2, thorough: 9 * 16 * 24 * 3 * 2 * 2 * 2 * 40, exhaustive: (true, true), run: cmd_names, what: "commands named after every ZMTP 3.x command (16 names) x body length 0..23 x 3 body patterns x short/long form x stage x side x socket type; first undisturbed, thorough also under drawn transport/schedule" },
            Stratum { name: "mutated", quick: 100_000, thorough: (1_500_000) * 8, exhaustive: (false, false), run: mutated, what: "random mutations of valid streams" },
        ],
    }
}
