//! C10 — round-robin senders deliver each message to exactly one peer, in rotation.
use crate::fw::{Ctx, PropDef, Stratum};
use crate::refcodec as rc;
use crate::socks::{AnySock, Kind};
use crate::world::{self, from_zmq, show_msg, tag_of, tagged, to_zmq, RawPeer, SwarmOpts};
use std::cell::RefCell;
use std::collections::BTreeSet;
use std::rc::Rc;
use std::sync::Arc;
use zeromq::*;
use zmq_simrt as rt;

#[derive(Default)]
struct St {
    /// (connection, client port, the library's side of it)
    conns: Vec<Option<(Arc<rt::net::Conn>, u16, usize)>>,
    keep: Vec<(usize, RawPeer)>,
    after_departure: Option<(usize, Vec<usize>)>,
    viol: Vec<(&'static str, String)>,
    done: bool,
    /// (target peer, membership at invoke, membership at return)
    sends: Vec<(usize, BTreeSet<usize>, BTreeSet<usize>)>,
    empty_checked: u32,
}

fn drain_monitor(mon: &mut futures::channel::mpsc::Receiver<SocketEvent>, members: &mut BTreeSet<usize>, st: &St) {
    while let Ok(Some(ev)) = mon.try_next() {
        if let SocketEvent::Accepted(Endpoint::Tcp(_, port), _) = ev {
            if let Some(i) = st.conns.iter().position(|c| matches!(c, Some((_, p, _)) if *p == port)) {
                members.insert(i);
            }
        }
    }
}

fn rr_world(ctx: &mut Ctx) {
    rr(ctx, false)
}
/// the socket dials out: every peer is a harness listener, some of which appear only after a
/// (virtual) delay, so that `connect` goes through the library's refused-retry-with-backoff loop
fn rr_connect(ctx: &mut Ctx) {
    rr(ctx, true)
}

async fn serve_peer(i: usize, mut peer: RawPeer, kind: Kind, s3: Rc<RefCell<St>>) {
    if kind == Kind::Req {
        // answer every request so that the REQ socket can alternate
        let mut answered = 0usize;
        loop {
            if !peer.wait_messages(answered + 1).await {
                break;
            }
            let n = peer.inbound().messages().len();
            while answered < n {
                if peer.send_msg(&[vec![], b"ok".to_vec()]).await.is_err() {
                    return world::park().await;
                }
                answered += 1;
            }
        }
    }
    s3.borrow_mut().keep.push((i, peer));
    world::park().await;
}

fn rr(ctx: &mut Ctx, dial: bool) {
    world::swarm(ctx, SwarmOpts::default());
    let kind = [Kind::Push, Kind::Dealer, Kind::Req][(ctx.idx % 3) as usize];
    let k = ((ctx.idx / 3) % 5) as usize; // 0..4 peers, walked by the case index
    // dial mode: listener i exists from (virtual) millisecond late[i] on; the socket connects to it
    // before send number at[i]
    let late: Vec<u64> = (0..k).map(|_| if !dial || ctx.plan(2) == 0 { 0 } else { 1 + ctx.plan(9000) }).collect();
    let starts: Vec<u32> = (0..k).map(|_| if ctx.plan(3) == 0 { 0 } else { ctx.plan(40) as u32 }).collect();
    let stypes: Vec<&'static str> = (0..k).map(|_| kind.peers()[ctx.plan(kind.peers().len() as u64) as usize]).collect();
    let nsends = 1 + ctx.plan(14) as usize;
    // one message in four ends in one or two empty frames (frames that repeat within a message:
    // empty next to empty, and for REQ the delimiter again at the end)
    let shapes: Vec<Vec<usize>> = (0..nsends)
        .map(|_| {
            let mut v: Vec<usize> = (0..1 + ctx.plan(3)).map(|_| ctx.plan_pick(&[0usize, 1, 10, 255, 256, 2000, 9000])).collect();
            if ctx.plan(4) == 0 {
                for _ in 0..1 + ctx.plan(2) {
                    v.push(world::TAIL_EMPTY);
                }
            }
            v
        })
        .collect();
    let gaps: Vec<u32> = (0..nsends).map(|_| ctx.plan(6) as u32).collect();
    let mut at: Vec<usize> = (0..k).map(|_| if !dial || ctx.plan(2) == 0 { 0 } else { ctx.plan(nsends as u64) as usize }).collect();
    at.sort();
    let v6: Vec<bool> = (0..k).map(|_| dial && ctx.plan(4) == 0).collect();
    // one peer leaves after the judged sends (PUSH/DEALER with >= 2 peers, one case in three)
    let depart: Option<usize> = if k >= 2 && ctx.plan(3) == 0 { Some(ctx.plan(k as u64) as usize) } else { None };
    // what the peers announce: nothing, an Identity property that is present but empty (what
    // libzmq sends by default), or distinct identities - the rotation is over connections, whatever
    // they call themselves
    let idents: Vec<Option<Vec<u8>>> = (0..k)
        .map(|i| match ctx.plan(4) {
            0 => None,
            1 => Some(Vec::new()),
            2 => Some(format!("rr{i}").into_bytes()),
            _ => Some(vec![0, i as u8 + 1]),
        })
        .collect();
    let st = Rc::new(RefCell::new(St::default()));
    st.borrow_mut().conns = vec![None; k];
    let s2 = st.clone();
    let starts_s = starts.clone();
    rt::task::spawn_local("app", async move {
        let mut sock = AnySock::new(kind, None);
        let mut mon = sock.monitor();
        let ep = if dial { String::new() } else { sock.bind("tcp://127.0.0.1:0").await.expect("bind").to_string() };
        let dial_eps: Vec<String> = (0..k).map(|i| if v6[i] { format!("tcp://[::1]:{}", 21000 + i) } else { format!("tcp://127.0.0.1:{}", 21000 + i) }).collect();
        for i in 0..k {
            let (ep, s3, start, stype) = (ep.clone(), s2.clone(), starts[i], stypes[i]);
            let ident = idents[i].clone();
            let ident2 = ident.clone();
            if dial {
                let (lep, late_ms) = (dial_eps[i].clone(), late[i]);
                rt::task::spawn_local("listener", async move {
                    if late_ms > 0 {
                        rt::task::sleep(std::time::Duration::from_millis(late_ms)).await;
                        rt::count("probe_listener_appeared_late");
                    }
                    let Ok((l, _)) = world::RawListener::bind(&lep) else { return };
                    let Ok(mut peer) = l.accept().await else { return };
                    s3.borrow_mut().conns[i] = Some((peer.conn.clone(), 0, 1 - peer.side));
                    if peer.hello(stype, ident.as_deref()).await.is_err() {
                        return;
                    }
                    let _l = l;
                    serve_peer(i, peer, kind, s3).await;
                });
                continue;
            }
            rt::task::spawn_local("peer", async move {
                for _ in 0..start {
                    rt::task::yield_now().await;
                }
                let Ok(mut peer) = RawPeer::connect(&ep) else { return };
                let port = peer.s.local_addr().map(|a| a.port()).unwrap_or(0);
                s3.borrow_mut().conns[i] = Some((peer.conn.clone(), port, 1 - peer.side));
                if peer.hello(stype, ident2.as_deref()).await.is_err() {
                    return;
                }
                serve_peer(i, peer, kind, s3).await;
            });
        }
        let mut members: BTreeSet<usize> = BTreeSet::new();
        let mut next_dial = 0usize;
        for n in 0..nsends {
            for _ in 0..gaps[n] {
                rt::task::yield_now().await;
            }
            while dial && next_dial < k && at[next_dial] <= n {
                // connect() returns once the handshake is complete and the peer is registered
                let t0 = rt::now();
                match sock.connect(&dial_eps[next_dial]).await {
                    Ok(()) => {
                        members.insert(next_dial);
                        if rt::now() > t0 {
                            rt::count("probe_connect_retried_after_refusal");
                        }
                    }
                    Err(e) => {
                        s2.borrow_mut().viol.push(("connect_failed", format!("{} connect to listener {next_dial} failed: {e}", kind.name())));
                        return world::park().await;
                    }
                }
                next_dial += 1;
            }
            drain_monitor(&mut mon, &mut members, &s2.borrow());
            let at_invoke = members.clone();
            let conns: Vec<Option<(Arc<rt::net::Conn>, usize)>> = s2.borrow().conns.iter().map(|c| c.as_ref().map(|c| (c.0.clone(), c.2))).collect();
            let before: Vec<usize> = conns.iter().map(|c| c.as_ref().map(|c| c.0.tap_len_from(c.1)).unwrap_or(0)).collect();
            let body = tagged(0, n as u32, &shapes[n]);
            let r = sock.send(to_zmq(&body)).await;
            // connections created during the call count from zero
            let conns: Vec<Option<(Arc<rt::net::Conn>, usize)>> = s2.borrow().conns.iter().map(|c| c.as_ref().map(|c| (c.0.clone(), c.2))).collect();
            let after: Vec<usize> = conns.iter().map(|c| c.as_ref().map(|c| c.0.tap_len_from(c.1)).unwrap_or(0)).collect();
            drain_monitor(&mut mon, &mut members, &s2.borrow());
            let wire: Vec<Vec<u8>> = if kind == Kind::Req {
                let mut w = vec![vec![]];
                w.extend(body.iter().cloned());
                w
            } else {
                body.clone()
            };
            let enc = rc::encode_msg(&wire);
            // the handshake bytes (greeting + READY) a connection gains during the call are not
            // message bytes: only look at connections that were already admitted at invoke time,
            // and at what follows the handshake on the others
            let delta = |j: usize| -> Vec<u8> {
                match &conns[j] {
                    Some((c, side)) => {
                        let tap = c.tap_from(*side);
                        let p = rc::parse_stream(&tap);
                        let hs_end = p.items.get(1).map(|s| s.end).unwrap_or(tap.len());
                        let from = before[j].max(hs_end.min(tap.len()));
                        tap[from.min(tap.len())..].to_vec()
                    }
                    None => vec![],
                }
            };
            match r {
                Ok(()) => {
                    let gained: Vec<usize> = (0..k).filter(|j| !delta(*j).is_empty()).collect();
                    if gained.len() != 1 {
                        s2.borrow_mut().viol.push(("not_exactly_one_peer", format!("{} send #{n} returned Ok but {} connections gained message bytes ({:?}); members at return {:?}", kind.name(), gained.len(), gained, members)));
                        return world::park().await;
                    }
                    let j = gained[0];
                    if delta(j) != enc {
                        s2.borrow_mut().viol.push(("message_incomplete_or_altered_at_return", format!("{} send #{n}: peer {j} gained {} bytes by the time send returned, the message {} encodes to {}", kind.name(), delta(j).len(), show_msg(&wire), enc.len())));
                        return world::park().await;
                    }
                    if !members.contains(&j) {
                        s2.borrow_mut().viol.push(("sent_to_unadmitted_peer", format!("{} send #{n} went to peer {j}, which no Accepted event / completed connect had announced", kind.name())));
                        return world::park().await;
                    }
                    s2.borrow_mut().sends.push((j, at_invoke, members.clone()));
                    if kind == Kind::Req {
                        match sock.recv().await {
                            Ok(_) => {}
                            Err(e) => {
                                s2.borrow_mut().viol.push(("req_reply_failed", format!("send #{n}: recv failed: {e}")));
                                return world::park().await;
                            }
                        }
                    }
                }
                Err(ZmqError::ReturnToSender { message, .. }) => {
                    if from_zmq(&message) != body {
                        s2.borrow_mut().viol.push(("returned_message_not_intact", format!("send #{n} handed back {} instead of {}", show_msg(&from_zmq(&message)), show_msg(&body))));
                        return world::park().await;
                    }
                    if !at_invoke.is_empty() {
                        s2.borrow_mut().viol.push(("send_failed_with_connected_peers", format!("{} send #{n} failed with no-peer error although peers {:?} were admitted before the call", kind.name(), at_invoke)));
                        return world::park().await;
                    }
                    for j in 0..k {
                        if !delta(j).is_empty() {
                            s2.borrow_mut().viol.push(("failed_send_wrote_bytes", format!("send #{n} failed but peer {j} gained {} bytes", delta(j).len())));
                            return world::park().await;
                        }
                    }
                    s2.borrow_mut().empty_checked += 1;
                }
                Err(e) => {
                    s2.borrow_mut().viol.push(("send_failed", format!("{} send #{n} failed: {e}; members {:?}", kind.name(), members)));
                    return world::park().await;
                }
            }
            let _ = after;
        }
        // ---- departure: once the socket has observed that a peer is gone (a send failed on it),
        // every further send succeeds and the rotation is strict again over the remaining peers
        if let Some(d) = depart {
            rt::task::idle().await;
            if !dial {
                drain_monitor(&mut mon, &mut members, &s2.borrow());
            }
            let gone = {
                let mut st = s2.borrow_mut();
                let pos = st.keep.iter().position(|(i, _)| *i == d);
                pos.map(|pos| st.keep.remove(pos))
            };
            // (a REQ partner lives inside its answering task: it is ended by resetting its connection)
            let departed = if members.len() != k {
                false
            } else if kind == Kind::Req {
                match s2.borrow().conns[d].as_ref().map(|c| c.0.clone()) {
                    Some(c) => {
                        c.reset();
                        rt::count("fault_reset");
                        true
                    }
                    None => false,
                }
            } else if let Some((_, p)) = gone {
                p.close();
                true
            } else {
                false
            };
            if departed {
                rt::task::idle().await;
                let mut observed = false;
                let oconns: Vec<(Arc<rt::net::Conn>, usize)> = s2.borrow().conns.iter().map(|c| c.as_ref().map(|c| (c.0.clone(), c.2)).unwrap()).collect();
                for t in 0..2 * k {
                    let before: Vec<usize> = oconns.iter().map(|(c, side)| c.tap_len_from(*side)).collect();
                    let body1 = tagged(1, t as u32, &[5]);
                    if sock.send(to_zmq(&body1)).await.is_err() {
                        observed = true;
                        break;
                    }
                    // whatever the socket does about the peer that has gone (fail the call, or pass
                    // the message on to the next peer), a peer that is alive gets the message as sent
                    let gained: Vec<usize> = (0..k).filter(|j| *j != d && oconns[*j].0.tap_len_from(oconns[*j].1) != before[*j]).collect();
                    if gained.len() == 1 {
                        let j = gained[0];
                        let mut wire1 = if kind == Kind::Req { vec![vec![]] } else { vec![] };
                        wire1.extend(body1.iter().cloned());
                        let tap = oconns[j].0.tap_from(oconns[j].1);
                        if tap[before[j]..] != rc::encode_msg(&wire1)[..] {
                            s2.borrow_mut().viol.push(("message_incomplete_or_altered_at_return", format!("{} while peer {d} was leaving: send #{t} put {} bytes on peer {j}'s connection, which are not the encoding of {}", kind.name(), tap.len() - before[j], show_msg(&wire1))));
                            return world::park().await;
                        }
                    }
                    if kind == Kind::Req && !matches!(rt::future::or_idle(sock.recv()).await, Some(Ok(_))) {
                        // the request went to the partner that has gone: the failed recv is how REQ observes it
                        observed = true;
                        break;
                    }
                }
                if observed {
                    rt::count("probe_departure_observed_by_failed_send");
                    let conns: Vec<(Arc<rt::net::Conn>, usize)> = s2.borrow().conns.iter().map(|c| c.as_ref().map(|c| (c.0.clone(), c.2)).unwrap()).collect();
                    let mut placed: Vec<usize> = Vec::new();
                    for t in 0..2 * (k - 1) + 1 {
                        let before: Vec<usize> = conns.iter().map(|(c, side)| c.tap_len_from(*side)).collect();
                        let body2 = tagged(2, t as u32, &[5, 0, 3]);
                        match sock.send(to_zmq(&body2)).await {
                            Ok(()) => {
                                let gained: Vec<usize> = (0..k).filter(|j| conns[*j].0.tap_len_from(conns[*j].1) != before[*j]).collect();
                                if gained.len() == 1 {
                                    // the complete message, nothing else: REQ puts exactly one delimiter in front
                                    let j = gained[0];
                                    let mut wire2 = if kind == Kind::Req { vec![vec![]] } else { vec![] };
                                    wire2.extend(body2.iter().cloned());
                                    let tap = conns[j].0.tap_from(conns[j].1);
                                    if tap[before[j]..] != rc::encode_msg(&wire2)[..] {
                                        s2.borrow_mut().viol.push(("message_incomplete_or_altered_at_return", format!("{} after peer {d} left: send #{t} put {} bytes on peer {j}'s connection, which are not the encoding of {}", kind.name(), tap.len() - before[j], show_msg(&wire2))));
                                        return world::park().await;
                                    }
                                }
                                if kind == Kind::Req {
                                    let _ = rt::future::or_idle(sock.recv()).await;
                                }
                                if gained.len() != 1 {
                                    s2.borrow_mut().viol.push(("not_exactly_one_peer", format!("{} after peer {d} left: send #{t} returned Ok but {} connections gained bytes ({:?})", kind.name(), gained.len(), gained)));
                                    return world::park().await;
                                }
                                if gained[0] == d {
                                    s2.borrow_mut().viol.push(("sent_to_departed_peer", format!("{} send #{t} was written to peer {d} after the socket had observed its departure", kind.name())));
                                    return world::park().await;
                                }
                                placed.push(gained[0]);
                            }
                            Err(e) => {
                                s2.borrow_mut().viol.push(("send_fails_after_departure_observed", format!("{}: peer {d} left and the socket has seen a send fail on it; send #{t} after that failed again ({e}) although {} peers are connected", kind.name(), k - 1)));
                                return world::park().await;
                            }
                        }
                    }
                    s2.borrow_mut().after_departure = Some((d, placed));
                }
            }
        }
        s2.borrow_mut().done = true;
        world::park().await;
        drop(sock);
    });
    let end = ctx.sim.run(400_000);
    if end == rt::RunEnd::Budget {
        ctx.violation("no_quiescence", format!("{} round-robin world did not become quiescent", kind.name()));
    }
    let s = st.borrow();
    let had = !s.viol.is_empty();
    for (c, d) in s.viol.clone() {
        ctx.violation(c, d);
    }
    if !s.done && !had && end == rt::RunEnd::Quiescent {
        ctx.violation("stuck", format!("{} script did not finish: a send never completed although every peer accepts data", kind.name()));
    }
    // rotation over windows of stable membership
    let mut i = 0;
    let mut windows = 0;
    while i < s.sends.len() {
        let m = s.sends[i].1.clone();
        let mut j = i;
        while j < s.sends.len() && s.sends[j].1 == m && s.sends[j].2 == m {
            j += 1;
        }
        let n = m.len();
        if n >= 2 && j - i >= n {
            windows += 1;
            for w in i..=(j - n) {
                let set: BTreeSet<usize> = s.sends[w..w + n].iter().map(|x| x.0).collect();
                if set.len() != n {
                    ctx.violation("rotation_broken", format!("{}: with a stable set of {n} peers {:?}, {n} consecutive sends went to {:?}", kind.name(), m, s.sends[w..w + n].iter().map(|x| x.0).collect::<Vec<_>>()));
                    break;
                }
            }
        }
        i = j.max(i + 1);
    }
    if let Some((d, placed)) = &s.after_departure {
        let n = k - 1;
        if n >= 2 {
            for w in 0..=(placed.len().saturating_sub(n)) {
                if w + n > placed.len() {
                    break;
                }
                let set: BTreeSet<usize> = placed[w..w + n].iter().copied().collect();
                if set.len() != n {
                    ctx.violation("rotation_broken_after_departure", format!("{}: peer {d} left (observed by a failed send); with the remaining {n} peers, {n} consecutive sends went to {:?}", kind.name(), &placed[w..w + n]));
                    break;
                }
            }
        }
        ctx.probe("rotation_after_departure_judged");
        ctx.nontrivial();
    }
    ctx.probe_n("rotation_windows", windows);
    ctx.probe_n("no_peer_send_checked", s.empty_checked as u64);
    ctx.probe_n("sends_placed", s.sends.len() as u64);
    if windows > 0 || s.empty_checked > 0 {
        ctx.nontrivial();
    }
    if ctx.want_sample {
        ctx.out.sample = Some(format!("{} with {k} peers joining after {:?} yields; {} sends placed on {:?}; no-peer sends {}", kind.name(), starts_s, s.sends.len(), s.sends.iter().map(|x| x.0).collect::<Vec<_>>(), s.empty_checked));
    }
    drop(s);
    ctx.check_panics();
}

pub fn def() -> PropDef {
    PropDef {
        id: "C10",
        level: "exploration",
        rule: "case index walks socket kind (PUSH/DEALER/REQ) x peer count 0..4; peers join after drawn delays (some before the first send, some between sends) - in rr_world by connecting to the bound socket (membership from Accepted monitor events), in rr_connect by being dialled with connect() at drawn positions between the sends, some listeners appearing only after a drawn virtual delay of up to 9 s so that connect() goes through the library's refused / back-off / retry loop on the simulated clock (membership = completed connect calls); rr_rejoin: the departure/rejoin histories of C16 for DEALER, judged only for 'sends reach the rejoined peer'; 1..14 sends with drawn shapes; connection taps are snapshotted at the instant send returns (same task step); membership is taken from Accepted monitor events; rotation is asserted only over maximal runs of sends with unchanged membership; non-trivial = a rotation window of >= 2 peers was judged or a no-peer send was judged; distinct = distinct (plan, schedule, transport) hashes",
        assumptions: &["during the judged sends nobody departs; in one case in three one peer then closes its connection, and once a send has failed on it (the socket's observation of the departure) every further send must succeed on exactly one remaining peer and rotate strictly over them (rejoin is judged under C16)", "REQ partners always reply, so that REQ can alternate"],
        strata: vec![
            Stratum { name: "rr_world", quick: 120_000, thorough: (2_000_000) * 5, exhaustive: (false, false), run: rr_world, what: "send placement at return time, strict rotation over stable membership, empty rotation" },
            Stratum { name: "rr_rejoin", quick: 9_600, thorough: 800_000, exhaustive: (false, false), run: super::c16::rejoin_in_rotation, what: "DEALER: a peer that comes back under its announced identity (16 departure/rejoin histories) is in the rotation again: sends reach it" },
            Stratum { name: "rr_connect", quick: 60_000, thorough: 5_000_000, exhaustive: (false, false), run: rr_connect, what: "the socket dials 0..4 harness listeners between sends; some listeners appear late, so connect() retries on the virtual clock" },
        ],
    }
}
