//! C05 — receive delivers each peer's messages exactly once, whole and in order.
use super::recv::{self, RecvCfg};
use crate::fw::{Ctx, PropDef, Stratum};
use crate::socks::RECV_KINDS;

fn l2(ctx: &mut Ctx, faults: bool, big: bool) {
    let kind = RECV_KINDS[(ctx.idx % RECV_KINDS.len() as u64) as usize];
    let out = recv::run(ctx, RecvCfg { kind, faults, cancel: false, max_senders: 4, max_msgs: if big { 6 } else { 14 }, big, rejoin: faults && !big, long: !faults && !big && (ctx.idx / 6) % 16 == 15 });
    recv::check_delivery(ctx, &out);
    ctx.check_panics();
}
fn l1(ctx: &mut Ctx) {
    crate::l1::run(ctx);
}
fn l2_real(ctx: &mut Ctx) {
    use crate::socks::Kind;
    let kind = [Kind::Pull, Kind::Sub, Kind::Dealer, Kind::Router, Kind::Rep][(ctx.idx % 5) as usize];
    let out = recv::run_real(ctx, kind);
    recv::check_real(ctx, &out);
    ctx.check_panics();
}
fn l2_clean(ctx: &mut Ctx) {
    l2(ctx, false, false)
}
fn l2_faults(ctx: &mut Ctx) {
    l2(ctx, true, false)
}
fn l2_big(ctx: &mut Ctx) {
    l2(ctx, true, true)
}

pub fn def() -> PropDef {
    PropDef {
        id: "C05",
        level: "exploration",
        rule: "each case = one seeded world: a receiving socket (type = case index mod 6 over PULL,SUB,DEALER,ROUTER,REP,XPUB) with 1..4 scripted senders, tagged messages, transport knobs and scheduler policy drawn per run; a case is non-trivial when a fault fired or messages from >1 peer were delivered; distinct = distinct (plan hash, schedule hash, transport hash) triples among non-trivial cases",
        assumptions: &["scripted peers speak well-formed ZMTP 3.0 produced by the independent reference encoder", "bytes within one connection are delivered in order without loss (TCP/Unix stream semantics)"],
        strata: vec![
            Stratum { name: "l1_fairqueue", quick: 300_000, thorough: (10_000_000) * 2, exhaustive: (false, false), run: l1, what: "component simulation of the fair queue: events inside the checked-out window" },
            Stratum { name: "l2_clean", quick: 60_000, thorough: (1_000_000) * 2, exhaustive: (false, false), run: l2_clean, what: "whole library, fault-free: peers join late, close orderly" },
            Stratum { name: "l2_faults", quick: 100_000, thorough: (1_500_000) * 2, exhaustive: (false, false), run: l2_faults, what: "whole library with cuts mid-message and resets" },
            Stratum { name: "l2_real_sockets", quick: 60_000, thorough: (1_500_000) * 2, exhaustive: (false, false), run: l2_real, what: "real sockets on both sides: PUSH->PULL, PUB->SUB, DEALER->DEALER, DEALER->ROUTER, REQ->REP" },
            Stratum { name: "l2_big", quick: 8_000, thorough: (100_000) * 2, exhaustive: (false, false), run: l2_big, what: "frames around 8 KiB / 128 KiB boundaries" },
        ],
    }
}
