//! C20 — a stalled or malicious handshake never blocks other connections.
use crate::fw::{Ctx, PropDef, Stratum};
use crate::refcodec as rc;
use crate::socks::{AnySock, Kind, ALL_KINDS};
use crate::world::{self, from_zmq, tag_of, tagged, to_zmq, RawPeer, SwarmOpts};
use std::cell::RefCell;
use std::rc::Rc;
use zeromq::SocketEvent;
use zmq_simrt as rt;

#[derive(Clone, Copy, Debug, PartialEq)]
enum Mode {
    Stop,
    Close,
    Garbage,
}
const MODES: [Mode; 3] = [Mode::Stop, Mode::Close, Mode::Garbage];

fn hello_bytes(kind: Kind) -> Vec<u8> {
    let mut b = rc::greeting_default();
    b.extend(rc::ready_for(kind.peers()[0], None));
    b
}

#[derive(Default)]
struct Out {
    done: bool,
    good_total: u32,
    good_ok: u32,
    established_ok: bool,
    listener_gone: bool,
    accept_failed: u32,
    accepted: u32,
    expected_failures: u32,
    possible_failures: u32,
    /// connections that complete the handshake for sure / that may or may not
    sure_admits: u32,
    possible_admits: u32,
    staller_delivered: u32,
    staller_got_traffic: u32,
    detail: String,
}

/// can the socket exchange one message with this scripted peer?
async fn works(sock: &mut AnySock, kind: Kind, peer: &mut RawPeer, id: u16, n: u32) -> bool {
    if kind.has_recv() && kind != Kind::Req {
        let mut m = if kind == Kind::Rep { vec![vec![]] } else { vec![] };
        m.extend(tagged(id, n, &[4]));
        if peer.send_msg(&m).await.is_err() {
            return false;
        }
        for _ in 0..30 {
            match rt::future::or_idle(sock.recv()).await {
                Some(Ok(msg)) => {
                    let f = from_zmq(&msg);
                    if kind == Kind::Rep {
                        let _ = sock.send(to_zmq(&[b"r".to_vec()])).await;
                    }
                    if tag_of(&f) == Some((id, n)) {
                        return true;
                    }
                }
                Some(Err(_)) => rt::task::yield_now().await,
                None => return false,
            }
        }
        false
    } else {
        // sending kinds: keep sending until this peer's connection shows a new message
        // (round-robin senders rotate over all admitted peers)
        let before = peer.inbound().messages().len();
        for k in 0..12u32 {
            let _ = sock.send(to_zmq(&tagged(id, n * 100 + k, &[4]))).await;
            if kind == Kind::Req {
                // whoever got the request answers
                rt::task::idle().await;
            }
            rt::task::idle().await;
            if peer.inbound().messages().len() > before {
                if kind == Kind::Req {
                    let _ = peer.send_msg(&[vec![], b"ok".to_vec()]).await;
                    let _ = rt::future::or_idle(sock.recv()).await;
                }
                return true;
            }
            if kind == Kind::Req {
                // the request went elsewhere and nobody will answer: give up on REQ here
                return false;
            }
        }
        false
    }
}

fn stallers(ctx: &mut Ctx) {
    let kind = ALL_KINDS[(ctx.idx % 9) as usize];
    let ipc = (ctx.idx / 9) % 2 == 1;
    let mode = MODES[((ctx.idx / 18) % 3) as usize];
    let hb = hello_bytes(kind);
    let mut off = ((ctx.idx / 54) % (hb.len() as u64 + 1)) as usize;
    if kind == Kind::Req && off >= hb.len() {
        // a staller that completes the handshake is an admitted REP peer: REQ's rotation would
        // hand it the probe request, and nothing could be judged
        off = hb.len() - 1;
    }
    let cell = ctx.idx % (54 * (hb.len() as u64 + 1));
    if ctx.idx < 54 * (hb.len() as u64 + 1) {
        world::plain(ctx);
    } else {
        world::swarm(ctx, SwarmOpts::default());
    }
    // 1..3 stallers as a rule; one disturbed case in sixteen has a crowd of 100..160 of them, all
    // silent at the same time (a listener must not have a quota of unfinished handshakes)
    let crowd = ctx.idx >= 54 * (hb.len() as u64 + 1) && kind != Kind::Req && ctx.plan(16) == 1;
    let nstall = if crowd { 100 + ctx.plan(61) as usize } else { 1 + ctx.plan(3) as usize };
    let extra_offs: Vec<usize> = (1..nstall).map(|_| ctx.plan(hb.len() as u64 + if kind == Kind::Req || crowd { 0 } else { 1 }) as usize).collect();
    let extra_modes: Vec<Mode> = (1..nstall).map(|_| if crowd { Mode::Stop } else { MODES[ctx.plan(3) as usize] }).collect();
    let abort_in_backlog = ctx.plan_bool();
    // one disturbed case in four: the application asked for a monitor once and has dropped the
    // receiving end since (nothing reads the events; nothing is judged from them either)
    let monitor_dropped = ctx.idx >= 54 * (hb.len() as u64 + 1) && ctx.plan(4) == 0;
    let accept_error = ctx.idx >= 54 * (hb.len() as u64 + 1) && ctx.plan(4) == 0;
    // one disturbed case in 64: 1030..1200 sequential well-behaved clients behind the stallers
    let long_history = ctx.idx >= 54 * (hb.len() as u64 + 1) && !crowd && !matches!(kind, Kind::Req | Kind::Push | Kind::Dealer) && ctx.plan(64) == 1; // (round-robin senders learn of a departure only when a write fails: a thousand departed clients would sit in their rotation and defeat the bounded probe below)
    let long_n: u32 = 1030 + ctx.plan(170) as u32;
    let out = Rc::new(RefCell::new(Out::default()));
    let o2 = out.clone();
    let idx = ctx.idx;
    let hblen = hb.len();
    rt::task::spawn_local("app", async move {
        let mut sock = AnySock::new(kind, None);
        let mut mon = sock.monitor();
        if monitor_dropped {
            drop(mon);
            mon = futures::channel::mpsc::channel(1).1;
            rt::count("probe_monitor_receiver_dropped_before_the_stallers");
        }
        let bind_to = if ipc { format!("ipc:///tmp/zsim-c20-{idx}.sock") } else { "tcp://127.0.0.1:0".to_string() };
        let ep = sock.bind(&bind_to).await.expect("bind").to_string();
        let peer_type = kind.peers()[0];
        // REQ can only be judged with one admitted peer at a time (its rotation would send the
        // probe to somebody else): it gets a single well-behaved client, connecting "during"
        let single = kind == Kind::Req;
        // an established peer, and a well-behaved client connecting BEFORE the stallers
        let mut established = None;
        if !single {
            let mut p = RawPeer::connect(&ep).expect("connect");
            p.hello(peer_type, Some(b"est")).await.expect("hello");
            if matches!(kind, Kind::Pub | Kind::Xpub) {
                let _ = p.send_msg(&[vec![1]]).await;
                p.conn.set_io(1, |io| io.wyield_pm = 0);
                p.conn.set_cap(1, 1 << 40);
            }
            rt::task::idle().await;
            if kind == Kind::Xpub {
                while let Some(Ok(_)) = rt::future::or_idle(sock.recv()).await {}
            }
            established = Some(p);
            o2.borrow_mut().sure_admits += 1;
        }
        // the stallers
        let mut keep = Vec::new();
        let mut offs = vec![off];
        offs.extend(extra_offs.iter().cloned());
        let mut modes = vec![mode];
        modes.extend(extra_modes.iter().cloned());
        for (o, m) in offs.iter().zip(modes.iter()) {
            let Ok(mut s) = RawPeer::connect(&ep) else { continue };
            if abort_in_backlog && *o == 0 && matches!(m, Mode::Close) {
                // the client aborts (RST) before the accept task has picked the connection up
                o2.borrow_mut().possible_failures += 1;
                s.reset();
                drop(s);
                rt::count("probe_connection_aborted_in_the_backlog");
                rt::task::idle().await;
                continue;
            }
            let _ = s.send(&hb[..*o]).await;
            match m {
                Mode::Stop => {
                    if *o >= hb.len() {
                        // sent everything: this is simply a well-behaved silent peer
                        o2.borrow_mut().sure_admits += 1;
                    }
                    keep.push(s);
                }
                Mode::Close => {
                    if *o < hb.len() {
                        o2.borrow_mut().expected_failures += 1;
                    } else {
                        // everything sent, then gone at once: the socket may or may not get its
                        // own greeting and READY out before it notices
                        o2.borrow_mut().possible_failures += 1;
                        o2.borrow_mut().possible_admits += 1;
                    }
                    s.close();
                }
                Mode::Garbage => {
                    if *o >= hb.len() {
                        o2.borrow_mut().sure_admits += 1;
                    }
                    if *o < hb.len() {
                        // garbage usually fails the handshake, but it may also amount to a frame
                        // header announcing more bytes than ever come: then the peer is a silent
                        // staller. Either is legitimate.
                        o2.borrow_mut().possible_failures += 1;
                        // (not for REQ: an admitted odd peer would be handed the probe request and never answer)
                        let odd = if *o == 64 && kind != Kind::Req { (idx / 7) % 4 } else { 0 };
                        if odd != 0 {
                            // right after a valid greeting: a READY that is framed correctly but
                            // unusual (a property given twice, three times). Whether such a peer
                            // is admitted is not this property's business; that everybody else is
                            // still served is
                            let pt = peer_type.as_bytes();
                            let r = match odd {
                                1 => rc::ready(&[(b"Socket-Type", pt), (b"Socket-Type", pt)]),
                                2 => rc::ready(&[(b"Socket-Type", pt), (b"Identity", b"odd"), (b"Identity", b"odd")]),
                                _ => rc::ready(&[(b"X-a", b"1"), (b"X-a", b"2"), (b"X-a", b"3"), (b"Socket-Type", pt)]),
                            };
                            let _ = s.send(&r).await;
                            o2.borrow_mut().possible_admits += 1;
                            rt::count("probe_staller_sent_a_ready_with_a_repeated_property");
                        } else {
                            let _ = s.send(&[0x13, 0x37, 0xff, 0x00, 0x42, 0x99, 0x01, 0x02, 0x03, 0x04, 0x05, 0x06, 0x07, 0x08, 0x09, 0x0a, 0x0b]).await;
                            // enough bytes to complete (and fail) any pending item
                            let _ = s.send(&[0xEE; 80]).await;
                        }
                    }
                    keep.push(s);
                }
            }
            // a well-behaved client connecting DURING (with a crowd: only once the crowd is complete)
            if crowd && keep.len() < offs.len() {
                continue;
            }
            if !single || keep.len() + 1 >= offs.len() {
                let mut g = RawPeer::connect(&ep).expect("connect");
                let _ = g.hello(peer_type, None).await;
                if matches!(kind, Kind::Pub | Kind::Xpub) {
                    let _ = g.send_msg(&[vec![1]]).await;
                    g.conn.set_io(1, |io| io.wyield_pm = 0);
                    g.conn.set_cap(1, 1 << 40);
                }
                rt::task::idle().await;
                if kind == Kind::Xpub {
                    while let Some(Ok(_)) = rt::future::or_idle(sock.recv()).await {}
                }
                o2.borrow_mut().good_total += 1;
                let n = o2.borrow().good_total;
                if works(&mut sock, kind, &mut g, 20 + n as u16, n).await {
                    o2.borrow_mut().good_ok += 1;
                } else {
                    o2.borrow_mut().detail = format!("well-behaved client #{n} connecting while a staller sat at offset {o} ({m:?})");
                }
                keep.push(g);
                if single {
                    break;
                }
            }
        }
        // a long history behind the stallers: a thousand-odd clients come, complete their handshake
        // and go, one after the other, while the first staller is still there
        if long_history {
            let mut served = 0u32;
            for n in 0..long_n {
                let Ok(mut g) = RawPeer::connect(&ep) else { break };
                let _ = g.hello(peer_type, None).await;
                if !matches!(rt::future::or_idle(g.wait_hello()).await, Some(Ok(_))) {
                    o2.borrow_mut().detail = format!("client #{n} of a long sequence of well-behaved clients got no greeting and READY ({served} before it were served; the stallers are still connected)");
                    break;
                }
                served += 1;
                g.close();
                if n % 64 == 63 {
                    rt::task::idle().await;
                    if kind == Kind::Xpub || kind.has_recv() && kind != Kind::Req {
                        while let Some(_r) = rt::future::or_idle(sock.recv()).await {}
                    }
                }
            }
            o2.borrow_mut().good_total += 1;
            o2.borrow_mut().possible_admits += long_n;
            if served == long_n {
                o2.borrow_mut().good_ok += 1;
                o2.borrow_mut().sure_admits += 0;
            }
            rt::count("probe_long_history_of_clients");
        }
        // an accept() call that fails (the kernel does that: ECONNABORTED, EMFILE) must not end the
        // accept loop: the client after it is still served
        if accept_error {
            if rt::rt().net.borrow().inject_accept_error(&world::ep_key(&ep), [std::io::ErrorKind::ConnectionAborted, std::io::ErrorKind::Other, std::io::ErrorKind::Interrupted][(idx % 3) as usize]) {
                rt::count("fault_accept_error");
                o2.borrow_mut().possible_failures += 1;
                rt::task::idle().await;
            }
        }
        // a well-behaved client connecting AFTER, and the established peer again
        if !single {
            let Ok(mut g) = RawPeer::connect(&ep) else {
                o2.borrow_mut().listener_gone = true;
                o2.borrow_mut().done = true;
                world::park().await;
                return;
            };
            let _ = g.hello(peer_type, None).await;
            if matches!(kind, Kind::Pub | Kind::Xpub) {
                let _ = g.send_msg(&[vec![1]]).await;
                g.conn.set_io(1, |io| io.wyield_pm = 0);
                g.conn.set_cap(1, 1 << 40);
            }
            rt::task::idle().await;
            if kind == Kind::Xpub {
                while let Some(Ok(_)) = rt::future::or_idle(sock.recv()).await {}
            }
            o2.borrow_mut().good_total += 1;
            if works(&mut sock, kind, &mut g, 90, 1).await {
                o2.borrow_mut().good_ok += 1;
            } else {
                o2.borrow_mut().detail = "well-behaved client connecting after the stallers".into();
            }
            keep.push(g);
            if let Some(e) = established.as_mut() {
                let ok = works(&mut sock, kind, e, 91, 2).await;
                o2.borrow_mut().established_ok = ok;
            }
        } else {
            o2.borrow_mut().established_ok = true;
        }
        rt::task::idle().await;
        while let Ok(Some(ev)) = mon.try_next() {
            match ev {
                SocketEvent::AcceptFailed(_) => o2.borrow_mut().accept_failed += 1,
                SocketEvent::Accepted(..) => o2.borrow_mut().accepted += 1,
                _ => {}
            }
        }
        o2.borrow_mut().done = true;
        world::park().await;
        drop(sock);
        drop(keep);
        drop(established);
    });
    let end = ctx.sim.run(600_000);
    let tag = format!("{} on {} with {} staller(s), first one {:?} at byte offset {off} of {}", kind.name(), if ipc { "ipc" } else { "tcp" }, nstall, mode, hblen);
    if end == rt::RunEnd::Budget {
        ctx.violation("no_quiescence", format!("{tag}: no quiescence"));
    }
    ctx.check_panics();
    let o = out.borrow();
    if o.listener_gone {
        ctx.violation("endpoint_stopped_accepting", format!("{tag}: after the stallers a connection to the bound endpoint is refused: nothing listens there any more, though the socket was neither unbound nor closed"));
    } else if o.done {
        if o.good_ok != o.good_total {
            ctx.violation("well_behaved_client_blocked", format!("{tag}: {} of {} well-behaved clients completed their handshake and exchanged a message; failing: {}", o.good_ok, o.good_total, o.detail));
        }
        if !o.established_ok {
            ctx.violation("established_traffic_interrupted", format!("{tag}: the peer established before the stallers no longer exchanges messages"));
        }
        if !monitor_dropped && (o.accept_failed < o.expected_failures || o.accept_failed > o.expected_failures + o.possible_failures) {
            ctx.violation("accept_failures_misreported", format!("{tag}: {} handshakes were closed before completion and {} were fed garbage, but the monitor got {} AcceptFailed events", o.expected_failures, o.possible_failures, o.accept_failed));
        }
        // the peer set: exactly the connections that completed a handshake were announced as peers
        let admits = o.sure_admits + o.good_total;
        if !monitor_dropped && (o.accepted < admits || o.accepted > admits + o.possible_admits) {
            ctx.violation("peer_set_changed_by_failed_handshake", format!("{tag}: {} connections completed their handshake ({} more may have), but the monitor announced {} accepted peers", admits, o.possible_admits, o.accepted));
        }
        ctx.nontrivial();
        ctx.probe_n("accept_failed_events", o.accept_failed as u64);
    } else if end == rt::RunEnd::Quiescent && ctx.sim.rt.panics.borrow().is_empty() {
        ctx.violation("stuck", format!("{tag}: the scenario never completed"));
    }
    ctx.out.extra_shape = cell;
    if ctx.want_sample {
        ctx.out.sample = Some(tag);
    }
    let _ = (o.staller_delivered, o.staller_got_traffic);
}

pub fn def() -> PropDef {
    let n = hello_bytes(Kind::Pull).len() as u64 + 1;
    PropDef {
        id: "C20",
        level: "fault_enumeration",
        rule: "the case index enumerates bound socket type (9) x transport {tcp, ipc} x staller behaviour {stop sending, close, switch to garbage} x every byte offset 0..=N of greeting+READY at which the first staller acts; 0..2 further stallers with drawn offsets/behaviours (one disturbed case in sixteen: a crowd of 100..160 simultaneous silent stallers; one in sixty-four: 1030..1200 well-behaved clients come and go one after the other behind the stallers); well-behaved clients connect before, during (after each staller) and after, an established peer exchanges traffic before and after; first undisturbed, then under drawn transport/schedule; judged at quiescence: every well-behaved client was admitted and exchanged a message, established traffic continues, exactly one AcceptFailed event per handshake that failed and none for silent stallers; distinct = distinct (cell, plan, schedule, transport)",
        assumptions: &["REQ is judged with a single well-behaved client (its rotation would otherwise send the probe to another admitted peer)", "a staller that has sent the complete greeting+READY is a well-behaved silent peer, not a failure"],
        strata: vec![Stratum { name: "stallers", quick: 54 * n + 60_000, thorough: (54 * n * 100) * 20, exhaustive: (false, false), run: stallers, what: "stallers at every handshake byte offset, good clients before/during/after" }],
    }
}
