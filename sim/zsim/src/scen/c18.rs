//! C18 — bind/unbind manage independent listeners with exact endpoint bookkeeping.
use crate::fw::{Ctx, PropDef, Stratum};
use crate::socks::{AnySock, Kind};
use crate::world::{self, ep_key, from_zmq, tag_of, tagged, to_zmq, RawPeer, SwarmOpts};
use std::cell::RefCell;
use std::collections::BTreeSet;
use std::rc::Rc;
use zeromq::{Endpoint, ZmqError};
use zmq_simrt as rt;

const KINDS: [Kind; 6] = [Kind::Pull, Kind::Dealer, Kind::Router, Kind::Rep, Kind::Sub, Kind::Xpub];

#[derive(Clone, Debug)]
enum Op {
    BindTcp4,
    BindTcp6,
    BindLocalhost,
    BindFixed(u16),
    BindIpc(u8),
    BindBadHost,
    /// (index, the removal of an ipc endpoint's socket file fails)
    UnbindBound(usize, bool),
    UnbindUnknown(u8),
    ConnectIn(usize),
    /// a connection that is accepted and then says nothing, ever (kept open)
    SilentIn(usize),
    /// the next accept() on a bound tcp endpoint fails (a transient condition of the process or of
    /// the queued connection); the endpoint stays bound and goes on accepting
    AcceptFails(usize, u8),
    Exchange(usize),
    /// the application does nothing for a while: seconds, minutes or hours of simulated time pass
    /// with the endpoints bound (whatever deadlines the socket keeps must concern single
    /// connections, not the endpoint)
    TimePasses(u8),
    /// a second socket tries to bind an endpoint this socket is listening on
    OtherSocketBind(usize),
}

struct Out {
    viol: Vec<(&'static str, String)>,
    done: bool,
    ops_done: usize,
    unbinds: u32,
    failed_binds: u32,
}

fn bookkeeping(ctx: &mut Ctx) {
    let kind = KINDS[(ctx.idx % KINDS.len() as u64) as usize];
    if ctx.idx % 4 == 0 {
        world::plain(ctx);
    } else {
        world::swarm(ctx, SwarmOpts::default());
    }
    let nops = 2 + ctx.plan(11) as usize;
    let mut ops = Vec::new();
    for _ in 0..nops {
        let o = match ctx.plan(21) {
            19 | 20 => Op::TimePasses(ctx.plan(5) as u8),
            0 | 1 => Op::BindTcp4,
            2 => Op::BindTcp6,
            3 => Op::BindLocalhost,
            4 => Op::BindFixed(6000 + ctx.plan(2) as u16),
            5 => Op::BindIpc(ctx.plan(2) as u8),
            6 => Op::BindBadHost,
            7 | 8 => Op::UnbindBound(ctx.plan(8) as usize, ctx.plan(4) == 0),
            9 | 15 => Op::UnbindUnknown(ctx.plan(10) as u8),
            10 | 11 => Op::ConnectIn(ctx.plan(8) as usize),
            14 => Op::OtherSocketBind(ctx.plan(8) as usize),
            12 => Op::SilentIn(ctx.plan(8) as usize),
            13 => Op::AcceptFails(ctx.plan(8) as usize, ctx.plan(4) as u8),
            _ => Op::Exchange(ctx.plan(8) as usize),
        };
        ops.push(o);
    }
    let out = Rc::new(RefCell::new(Out { viol: vec![], done: false, ops_done: 0, unbinds: 0, failed_binds: 0 }));
    let (o2, ops2) = (out.clone(), ops.clone());
    let peer_type = kind.peers()[0];
    let idx = ctx.idx;
    let unlink_kind = [std::io::ErrorKind::PermissionDenied, std::io::ErrorKind::NotFound, std::io::ErrorKind::Other][(ctx.idx % 3) as usize];
    rt::task::spawn_local("app", async move {
        let mut sock = AnySock::new(kind, None);
        let mut other = AnySock::new(kind, None);
        // the reference model: the set of bound endpoints (their text form), in bind order
        let mut model: Vec<String> = Vec::new();
        let mut gone: Vec<String> = Vec::new(); // endpoints unbound earlier
        let mut silent: Vec<RawPeer> = Vec::new(); // accepted connections that never say anything
        let mut conns: Vec<(RawPeer, String, u16)> = Vec::new(); // (peer, endpoint it came in through, id)
        let mut next_id = 0u16;
        macro_rules! bail {
            ($c:expr, $($a:tt)*) => {{
                o2.borrow_mut().viol.push(($c, format!($($a)*)));
                return world::park().await;
            }};
        }
        for (n, op) in ops2.iter().enumerate() {
            let binds_before: BTreeSet<String> = sock.binds().iter().map(|e| e.to_string()).collect();
            let listeners_before = rt::rt().net.borrow().listener_keys();
            match op {
                Op::BindTcp4 | Op::BindTcp6 | Op::BindLocalhost | Op::BindFixed(_) | Op::BindIpc(_) | Op::BindBadHost => {
                    let arg = match op {
                        Op::BindTcp4 => "tcp://127.0.0.1:0".to_string(),
                        Op::BindTcp6 => "tcp://[::1]:0".to_string(),
                        Op::BindLocalhost => "tcp://localhost:0".to_string(),
                        Op::BindFixed(p) => format!("tcp://127.0.0.1:{p}"),
                        Op::BindIpc(i) => format!("ipc:///tmp/zsim-c18-{idx}-{i}.sock"),
                        _ => "tcp://no-such-host.invalid:0".to_string(),
                    };
                    let duplicate = model.iter().any(|m| *m == arg);
                    match sock.bind(&arg).await {
                        Ok(ep) => {
                            let text = ep.to_string();
                            if duplicate || matches!(op, Op::BindBadHost) {
                                bail!("bind_should_have_failed", "op {n}: bind({arg}) succeeded ({text}) although {}", if duplicate { "that endpoint is already bound" } else { "the host cannot be resolved" });
                            }
                            if let Endpoint::Tcp(_, port) = &ep {
                                if *port == 0 {
                                    bail!("wildcard_port_not_resolved", "op {n}: bind({arg}) returned {text} with port 0");
                                }
                            }
                            if text.parse::<Endpoint>().ok().as_ref() != Some(&ep) {
                                bail!("endpoint_text_does_not_round_trip", "op {n}: bind({arg}) returned {ep:?} whose text form {text} does not parse back to it");
                            }
                            if model.contains(&text) {
                                bail!("bind_returned_existing_endpoint", "op {n}: bind({arg}) returned {text}, which was already in the bind set");
                            }
                            model.push(text.clone());
                            // connectable right away
                            match RawPeer::connect(&text) {
                                Ok(p) => drop(p),
                                Err(e) => bail!("returned_endpoint_not_connectable", "op {n}: the endpoint {text} returned by bind({arg}) refuses a connection: {e}"),
                            }
                        }
                        Err(_) => {
                            o2.borrow_mut().failed_binds += 1;
                            if !duplicate && !matches!(op, Op::BindBadHost) {
                                bail!("bind_failed", "op {n}: bind({arg}) failed although nothing is bound there");
                            }
                            // a failed bind changes nothing
                            let after: BTreeSet<String> = sock.binds().iter().map(|e| e.to_string()).collect();
                            if after != binds_before {
                                bail!("failed_bind_changed_bind_set", "op {n}: a failed bind({arg}) changed binds() from {binds_before:?} to {after:?}");
                            }
                            if rt::rt().net.borrow().listener_keys() != listeners_before {
                                bail!("failed_bind_changed_listeners", "op {n}: a failed bind({arg}) changed the set of listeners");
                            }
                        }
                    }
                }
                Op::UnbindBound(i, unlink_fails) => {
                    if model.is_empty() {
                        continue;
                    }
                    let text = model[*i % model.len()].clone();
                    let ep: Endpoint = text.parse().expect("endpoint text");
                    // an ipc endpoint whose socket file cannot be removed at this moment: unbind may
                    // report that, but the endpoint is unbound all the same - nothing listens there
                    // any more, so it is not in the bind set any more either
                    let failing = *unlink_fails && text.starts_with("ipc://");
                    if failing {
                        // the removal is refused, finds the file gone (a renamed directory), or fails otherwise
                        rt::rt().net.borrow_mut().fail_remove_kind = unlink_kind;
                        rt::rt().net.borrow_mut().fail_remove_file = 1;
                    }
                    match sock.unbind(ep).await {
                        Ok(()) => {}
                        Err(_) if failing => {}
                        Err(e) => bail!("unbind_of_bound_endpoint_failed", "op {n}: unbind({text}) failed: {e}"),
                    }
                    if failing {
                        rt::rt().net.borrow_mut().fail_remove_file = 0;
                        // somebody tidies the file away
                        if let Some(p) = text.strip_prefix("ipc://") {
                            rt::rt().net.borrow_mut().files.remove(std::path::Path::new(p));
                        }
                        rt::count("fault_unlink_error_at_unbind");
                        let again: Endpoint = text.parse().expect("endpoint text");
                        match sock.unbind(again).await {
                            Err(ZmqError::NoSuchBind(_)) => {}
                            other => bail!("unbound_endpoint_still_in_the_bind_set", "op {n}: unbind({text}) stopped the listener but could not remove the socket file; a second unbind of the same endpoint must find nothing, but returned {:?}", other.map_err(|e| e.to_string())),
                        }
                    }
                    o2.borrow_mut().unbinds += 1;
                    model.retain(|m| *m != text);
                    gone.push(text.clone());
                    // immediately: that endpoint refuses, every other one still accepts
                    if RawPeer::connect(&text).is_ok() {
                        bail!("unbound_endpoint_still_accepts", "op {n}: right after unbind({text}) returned, a connection to it was accepted");
                    }
                    if rt::rt().net.borrow().listening(&ep_key(&text)) {
                        bail!("unbound_listener_still_registered", "op {n}: after unbind({text}) its listener still exists");
                    }
                    if let Some(p) = text.strip_prefix("ipc://") {
                        if rt::rt().net.borrow().file_exists(std::path::Path::new(p)) {
                            bail!("unbound_ipc_file_left_behind", "op {n}: after unbind({text}) the socket file still exists");
                        }
                    }
                    for other in &model {
                        match RawPeer::connect(other) {
                            Ok(p) => drop(p),
                            Err(_) => bail!("unbind_stopped_another_endpoint", "op {n}: unbind({text}) also stopped {other}"),
                        }
                    }
                }
                Op::UnbindUnknown(v) => {
                    // far misses, and near misses derived from an endpoint that IS bound: its wildcard
                    // form (what was passed to bind), the next port, another spelling of the host,
                    // the unspecified address, a longer ipc path; and an endpoint unbound earlier
                    let bound_tcp: Option<(String, u16)> = model.iter().rev().find(|m| m.starts_with("tcp://")).map(|m| {
                        let (_, h, p) = crate::world::parse_ep(m);
                        (h, p)
                    });
                    let host_text = |h: &str| if h.contains(':') { format!("[{h}]") } else { h.to_string() };
                    let text = match (v, &bound_tcp) {
                        (0, _) => "tcp://127.0.0.1:1".to_string(),
                        (1, _) => "ipc:///tmp/never-bound.sock".to_string(),
                        (2, _) => "tcp://localhost:2".to_string(),
                        (3, Some((h, _))) => format!("tcp://{}:0", host_text(h)),
                        (4, Some((h, p))) => format!("tcp://{}:{}", host_text(h), p.wrapping_add(1).max(1)),
                        (5, Some((h, p))) => format!("tcp://{}:{p}", if h == "localhost" { "127.0.0.1" } else { "localhost" }),
                        (6, Some((h, p))) => format!("tcp://{}:{p}", if h.contains(':') { "[::]" } else { "0.0.0.0" }),
                        (7, _) => match model.iter().find(|m| m.starts_with("ipc://")) {
                            Some(m) => format!("{m}x"),
                            None => "ipc:///tmp/zsim-other.sock".to_string(),
                        },
                        (8, _) => match gone.last() {
                            Some(g) => g.clone(),
                            None => "tcp://127.0.0.1:3".to_string(),
                        },
                        (_, Some((h, _))) => format!("tcp://{}:65535", host_text(h)),
                        _ => "tcp://[::1]:4".to_string(),
                    };
                    if model.contains(&text) {
                        continue;
                    }
                    let Ok(ep) = text.parse::<Endpoint>() else { continue };
                    match sock.unbind(ep).await {
                        Err(ZmqError::NoSuchBind(_)) => {}
                        Err(e) => bail!("unbind_unknown_wrong_error", "op {n}: unbind({text}) of an endpoint that is not bound failed with '{e}' instead of the no-such-bind error"),
                        Ok(()) => bail!("unbind_unknown_succeeded", "op {n}: unbind({text}) succeeded although the bind set is {model:?}"),
                    }
                    rt::count("probe_unbind_of_unbound_endpoint_judged");
                    // and it changed nothing: every bound endpoint still accepts
                    for other in &model {
                        match RawPeer::connect(other) {
                            Ok(p) => drop(p),
                            Err(_) => bail!("failed_unbind_stopped_an_endpoint", "op {n}: the failed unbind({text}) stopped {other}"),
                        }
                    }
                }
                Op::OtherSocketBind(i) => {
                    if model.is_empty() {
                        continue;
                    }
                    let text = model[*i % model.len()].clone();
                    if other.bind(&text).await.is_ok() {
                        bail!("second_socket_bound_endpoint_in_use", "op {n}: another socket's bind({text}) succeeded although this socket is listening there");
                    }
                    // the endpoint still reaches this socket
                    if rt::rt().net.borrow().listener_keys() != listeners_before {
                        bail!("failed_bind_changed_listeners", "op {n}: another socket's failed bind({text}) changed the set of listeners");
                    }
                    match RawPeer::connect(&text) {
                        Ok(p) => drop(p),
                        Err(_) => bail!("endpoint_lost_after_foreign_bind", "op {n}: after another socket's failed bind({text}) the endpoint refuses connections"),
                    }
                }
                Op::ConnectIn(i) => {
                    if model.is_empty() {
                        continue;
                    }
                    let text = model[*i % model.len()].clone();
                    match RawPeer::connect(&text) {
                        Ok(mut p) => {
                            let _ = p.hello(peer_type, None).await;
                            rt::task::idle().await;
                            // "accepts any number of connections": the endpoint has answered this one
                            // with its own greeting and READY, whoever else is connected to it
                            if p.inbound().items.len() < 2 {
                                bail!("bound_endpoint_does_not_answer", "op {n}: a connection to {text} (in the bind set) was opened and completed its side of the handshake, but the socket never sent its greeting and READY ({} silent connections are open)", silent.len());
                            }
                            conns.push((p, text, next_id));
                            next_id += 1;
                        }
                        Err(e) => bail!("bound_endpoint_refuses", "op {n}: {text} is in the bind set but refuses a connection: {e}"),
                    }
                }
                Op::TimePasses(which) => {
                    let secs = [1u64, 29, 31, 300, 90_000][*which as usize % 5];
                    rt::task::sleep(std::time::Duration::from_secs(secs)).await;
                    rt::task::idle().await;
                    rt::count("probe_simulated_time_passed_between_operations");
                }
                Op::SilentIn(i) => {
                    if model.is_empty() {
                        continue;
                    }
                    let text = model[*i % model.len()].clone();
                    match RawPeer::connect(&text) {
                        Ok(p) => {
                            rt::count("probe_silent_connection_opened");
                            silent.push(p);
                            rt::task::idle().await;
                        }
                        Err(e) => bail!("bound_endpoint_refuses", "op {n}: {text} is in the bind set but refuses a connection: {e}"),
                    }
                }
                Op::AcceptFails(i, which) => {
                    let tcp: Vec<String> = model.iter().cloned().collect();
                    if tcp.is_empty() {
                        continue;
                    }
                    let text = tcp[*i % tcp.len()].clone();
                    // ECONNABORTED, EMFILE / ENFILE (no ErrorKind of their own), ENOMEM, EINTR
                    let kind = [std::io::ErrorKind::ConnectionAborted, std::io::ErrorKind::Other, std::io::ErrorKind::OutOfMemory, std::io::ErrorKind::Interrupted][*which as usize % 4];
                    if rt::rt().net.borrow().inject_accept_error(&ep_key(&text), kind) {
                        rt::count("fault_accept_error");
                        rt::task::idle().await;
                        match RawPeer::connect(&text) {
                            Ok(mut p) => {
                                let _ = p.hello(peer_type, None).await;
                                rt::task::idle().await;
                                if p.inbound().items.len() < 2 {
                                    bail!("endpoint_dead_after_accept_error", "op {n}: one accept() on {text} failed with {kind:?}; the endpoint is still in the bind set, a later connection to it was opened but never answered");
                                }
                                conns.push((p, text, next_id));
                                next_id += 1;
                            }
                            Err(e) => bail!("endpoint_dead_after_accept_error", "op {n}: one accept() on {text} failed with {kind:?}; the endpoint is still in the bind set but refuses connections now: {e}"),
                        }
                    }
                }
                Op::Exchange(j) => {
                    if conns.is_empty() {
                        continue;
                    }
                    let k = *j % conns.len();
                    let id = conns[k].2;
                    let mut m = if kind == Kind::Rep { vec![vec![]] } else { vec![] };
                    m.extend(tagged(id, n as u32, &[3]));
                    let via = conns[k].1.clone();
                    let _ = conns[k].0.send_msg(&m).await;
                    let mut got = false;
                    while let Some(r) = rt::future::or_idle(sock.recv()).await {
                        if let Ok(msg) = r {
                            if tag_of(&from_zmq(&msg)) == Some((id, n as u32)) {
                                got = true;
                            }
                            if kind == Kind::Rep {
                                let _ = sock.send(to_zmq(&[b"r".to_vec()])).await;
                            }
                            if got {
                                break;
                            }
                        }
                    }
                    if !got {
                        bail!("established_connection_stopped_working", "op {n}: a message on an established connection (accepted through {via}, {}) was not delivered", if model.contains(&via) { "still bound" } else { "since unbound" });
                    }
                }
            }
            // binds() equals the model after every operation
            let after: BTreeSet<String> = sock.binds().iter().map(|e| e.to_string()).collect();
            let want: BTreeSet<String> = model.iter().cloned().collect();
            if after != want {
                bail!("bind_set_differs_from_model", "after op {n} ({op:?}): binds() = {after:?}, expected {want:?}");
            }
            o2.borrow_mut().ops_done = n + 1;
        }
        o2.borrow_mut().done = true;
        world::park().await;
        drop(sock);
        drop(other);
        drop(conns);
        drop(silent);
    });
    let end = ctx.sim.run(600_000);
    if end == rt::RunEnd::Budget {
        ctx.violation("no_quiescence", format!("{} bind/unbind world: no quiescence", kind.name()));
    }
    ctx.check_panics();
    let o = out.borrow();
    let had = !o.viol.is_empty();
    for (c, d) in o.viol.clone() {
        ctx.violation(c, format!("{}: {d}; ops {:?}", kind.name(), ops));
    }
    if !o.done && !had && end == rt::RunEnd::Quiescent && ctx.sim.rt.panics.borrow().is_empty() {
        ctx.violation("stuck", format!("{}: operation #{} ({:?}) never completed; ops {:?}", kind.name(), o.ops_done, ops.get(o.ops_done), ops));
    }
    if o.unbinds > 0 || o.failed_binds > 0 {
        ctx.nontrivial();
    }
    ctx.probe_n("unbind_judged", o.unbinds as u64);
    ctx.probe_n("failed_bind_judged", o.failed_binds as u64);
    if ctx.want_sample {
        ctx.out.sample = Some(format!("{} ops {:?}", kind.name(), ops));
    }
}

pub fn def() -> PropDef {
    PropDef {
        id: "C18",
        level: "exploration",
        rule: "one case = a seeded sequence of 2..12 operations over {bind tcp 127.0.0.1:0 / [::1]:0 / localhost:0 / fixed port / ipc path / unresolvable host, duplicate binds arising from the fixed ports and paths, unbind(bound), unbind(never bound), connect-in with handshake, exchange a message on an established connection} against a reference model of the bind set, checked after every operation in the simulated network and file namespaces; socket kind walks PULL, DEALER, ROUTER, REP, SUB, XPUB; non-trivial = at least one unbind or failed bind judged; distinct = distinct (plan, schedule, transport)",
        assumptions: &["endpoints are those of the simulator's TCP/IPC namespaces, reached through the real bind/unbind/accept code", "'localhost' resolves to 127.0.0.1 in the simulated resolver"],
        strata: vec![Stratum { name: "bookkeeping", quick: 150_000, thorough: (2_000_000) * 8, exhaustive: (false, false), run: bookkeeping, what: "operation sequences vs the bind-set model" }],
    }
}
