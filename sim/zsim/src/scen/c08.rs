//! C08 — REQ/REP lock-step: one outstanding request, reply goes to its requester.
use crate::fw::{Ctx, PropDef, Stratum};
use crate::refcodec as rc;
use crate::world::{self, from_zmq, show_msg, tag_of, tagged, to_zmq, RawPeer, SwarmOpts};
use std::cell::RefCell;
use std::rc::Rc;
use zeromq::prelude::*;
use zeromq::*;
use zmq_simrt as rt;

type Viol = Rc<RefCell<Vec<(&'static str, String)>>>;

/// sequences over {send, recv} of length 1..=6, enumerated by index 0..126
fn sequence(mut i: u64) -> Vec<bool> {
    let mut len = 1;
    loop {
        let n = 1u64 << len;
        if i < n {
            return (0..len).map(|b| (i >> b) & 1 == 1).collect(); // true = send
        }
        i -= n;
        len += 1;
        if len > 6 {
            len = 6;
            i %= 64;
        }
    }
}
pub const NSEQ: u64 = 2 + 4 + 8 + 16 + 32 + 64;

fn fmt_seq(s: &[bool]) -> String {
    s.iter().map(|b| if *b { 'S' } else { 'R' }).collect()
}

fn finish(ctx: &mut Ctx, end: rt::RunEnd, viol: &Viol, done: bool, who: &str) {
    if end == rt::RunEnd::Budget {
        ctx.violation("no_quiescence", format!("{who} world did not become quiescent"));
    }
    let v = viol.borrow().clone();
    let had = !v.is_empty();
    for (c, d) in v {
        if c == "harness" {
            ctx.harness_error(d);
        } else {
            ctx.violation(c, d);
        }
    }
    if !done && !had && end == rt::RunEnd::Quiescent {
        ctx.violation("stuck", format!("{who} script did not finish: a legal call never completed although the partner always answers"));
    }
    ctx.check_panics();
}

/// REQ socket, every call sequence, against a scripted REP that always answers
fn req_sequences(ctx: &mut Ctx) {
    let seq = sequence(ctx.idx % NSEQ);
    if ctx.idx < NSEQ {
        world::plain(ctx);
    } else {
        world::swarm(ctx, SwarmOpts::default());
    }
    // beyond the undisturbed enumeration a request may have a long or an empty leading frame in
    // front of its last one (one wire message per request, whatever its frames look like)
    let leads: Vec<usize> = (0..seq.len()).map(|step| if ctx.idx >= NSEQ && ctx.plan(3) == 0 { ctx.plan_pick(&[0usize, 256, 300, 9000]) } else { 1 + step }).collect();
    let viol: Viol = Rc::new(RefCell::new(Vec::new()));
    let done = Rc::new(RefCell::new(false));
    let (vl, dn) = (viol.clone(), done.clone());
    let seq2 = seq.clone();
    rt::task::spawn_local("app", async move {
        let mut req = ReqSocket::new();
        let ep = req.bind("tcp://127.0.0.1:0").await.expect("bind").to_string();
        let mut peer = RawPeer::connect(&ep).expect("connect");
        peer.hello("REP", None).await.expect("hello");
        let conn = peer.conn.clone();
        rt::task::spawn_local("rep-peer", async move {
            let mut answered = 0usize;
            loop {
                if !peer.wait_messages(answered + 1).await {
                    break;
                }
                let msgs = peer.inbound().messages();
                while answered < msgs.len() {
                    let s = tag_of(&msgs[answered]).map(|t| t.1).unwrap_or(999);
                    let mut r = vec![Vec::new()];
                    r.extend(tagged(1, s, &[2]));
                    if peer.send_msg(&r).await.is_err() {
                        return world::park().await;
                    }
                    answered += 1;
                }
            }
        });
        for _ in 0..100 {
            rt::task::idle().await;
            if conn.tap_len_from(1) > 64 {
                break;
            }
        }
        rt::task::idle().await;
        let mut awaiting: Option<u32> = None;
        let mut next = 0u32;
        for (step, is_send) in seq2.iter().enumerate() {
            let before = conn.tap_len_from(1);
            if *is_send {
                let m = tagged(0, next, &[leads[step], 3]);
                let r = req.send(to_zmq(&m)).await;
                match (awaiting, r) {
                    (None, Ok(())) => {
                        awaiting = Some(next);
                        next += 1;
                        let msgs = rc::parse_stream(&conn.tap_from(1)).messages();
                        let mut e = vec![vec![]];
                        e.extend(m.iter().cloned());
                        if msgs.last() != Some(&e) {
                            vl.borrow_mut().push(("request_not_on_wire", format!("step {step}: send returned Ok but the wire shows {:?}", msgs.last().map(|x| show_msg(x)))));
                            return world::park().await;
                        }
                    }
                    (None, Err(e)) => {
                        vl.borrow_mut().push(("legal_send_refused", format!("step {step} of {}: send in idle state failed: {e}", fmt_seq(&seq2))));
                        return world::park().await;
                    }
                    (Some(o), Ok(())) => {
                        vl.borrow_mut().push(("out_of_turn_send_accepted", format!("step {step} of {}: send accepted while request {o} is unanswered", fmt_seq(&seq2))));
                        return world::park().await;
                    }
                    (Some(_), Err(ZmqError::ReturnToSender { message, .. })) => {
                        if from_zmq(&message) != m {
                            vl.borrow_mut().push(("refused_message_not_intact", format!("step {step}: handed back {} instead of {}", show_msg(&from_zmq(&message)), show_msg(&m))));
                            return world::park().await;
                        }
                        rt::task::yield_now().await;
                        if conn.tap_len_from(1) != before {
                            vl.borrow_mut().push(("refused_send_wrote_bytes", format!("step {step}: out-of-turn send put {} bytes on the wire", conn.tap_len_from(1) - before)));
                            return world::park().await;
                        }
                    }
                    (Some(_), Err(e)) => {
                        vl.borrow_mut().push(("refused_without_message", format!("step {step}: out-of-turn send failed with '{e}', which does not hand the message back")));
                        return world::park().await;
                    }
                }
            } else {
                let r = req.recv().await;
                match (awaiting, r) {
                    (Some(o), Ok(m)) => {
                        let f = from_zmq(&m);
                        if tag_of(&f).map(|t| t.1) != Some(o) {
                            vl.borrow_mut().push(("reply_mispaired", format!("step {step}: recv returned {} for request {o}", show_msg(&f))));
                            return world::park().await;
                        }
                        awaiting = None;
                    }
                    (Some(o), Err(e)) => {
                        vl.borrow_mut().push(("legal_recv_failed", format!("step {step}: recv for request {o} failed: {e}")));
                        return world::park().await;
                    }
                    (None, Ok(m)) => {
                        vl.borrow_mut().push(("out_of_turn_recv_returned_message", format!("step {step} of {}: recv in idle state returned {}", fmt_seq(&seq2), show_msg(&from_zmq(&m)))));
                        return world::park().await;
                    }
                    (None, Err(_)) => {
                        if conn.tap_len_from(1) != before {
                            vl.borrow_mut().push(("refused_recv_wrote_bytes", format!("step {step}: out-of-turn recv changed the wire")));
                            return world::park().await;
                        }
                    }
                }
            }
        }
        *dn.borrow_mut() = true;
        futures::future::pending::<()>().await;
        drop(req);
    });
    let end = ctx.sim.run(200_000);
    finish(ctx, end, &viol, *done.borrow(), "REQ sequence");
    // an illegal call occurs in the sequence?
    let mut aw = false;
    let mut illegal = false;
    for s in &seq {
        if *s == aw {
            illegal = true;
        } else {
            aw = *s;
        }
    }
    if illegal {
        ctx.nontrivial();
        ctx.probe("sequence_with_illegal_call");
    }
    ctx.out.extra_shape = ctx.idx % NSEQ;
    if ctx.want_sample {
        ctx.out.sample = Some(format!("REQ call sequence {} against a scripted REP", fmt_seq(&seq)));
    }
}

/// REP socket, every call sequence, against two scripted REQ-like partners that pipeline requests
fn rep_sequences(ctx: &mut Ctx) {
    let seq = sequence(ctx.idx % NSEQ);
    if ctx.idx < NSEQ {
        world::plain(ctx);
    } else {
        world::swarm(ctx, SwarmOpts::default());
    }
    // beyond the undisturbed enumeration, partners slip malformed requests (no delimiter / nothing
    // after the delimiter) in front of some of their requests: recv rejects (or drops) them, and a
    // rejected request is not a received request - the lock-step state must not move
    let malformed: Vec<Vec<Option<u8>>> = (0..2).map(|_| (0..6).map(|_| if ctx.idx >= NSEQ && ctx.plan(4) == 0 { Some(ctx.plan(3) as u8) } else { None }).collect()).collect();
    let n_malformed: usize = malformed.iter().flatten().flatten().count();
    // ... and a reply may have a long or an empty frame in front of its last one
    let reply_leads: Vec<Option<usize>> = (0..seq.len()).map(|_| if ctx.idx >= NSEQ && ctx.plan(3) == 0 { Some(ctx.plan_pick(&[0usize, 256, 300, 9000])) } else { None }).collect();
    let viol: Viol = Rc::new(RefCell::new(Vec::new()));
    let done = Rc::new(RefCell::new(false));
    let (vl, dn) = (viol.clone(), done.clone());
    let seq2 = seq.clone();
    rt::task::spawn_local("app", async move {
        let mut rep = RepSocket::new();
        let ep = rep.bind("tcp://127.0.0.1:0").await.expect("bind").to_string();
        // two partners; each pipelines 6 requests (DEALER-style, so recv never starves)
        let mut conns = Vec::new();
        let mut keep = Vec::new();
        for p in 0..2u16 {
            let mut peer = RawPeer::connect(&ep).expect("connect");
            peer.hello("DEALER", None).await.expect("hello");
            for s in 0..6u32 {
                match malformed[p as usize][s as usize] {
                    Some(0) => peer.send_msg(&[b"junk".to_vec()]).await.expect("write"),
                    Some(1) => peer.send_msg(&[vec![]]).await.expect("write"),
                    Some(_) => peer.send_msg(&[b"id".to_vec(), vec![]]).await.expect("write"),
                    None => {}
                }
                let mut m = vec![vec![]];
                m.extend(tagged(p, s, &[2]));
                peer.send_msg(&m).await.expect("write");
            }
            conns.push(peer.conn.clone());
            keep.push(peer); // keep the connection open for the whole run
        }
        // both partners admitted before the first judged call
        for _ in 0..200 {
            rt::task::idle().await;
            if conns.iter().all(|c| c.tap_len_from(1) > 64) {
                break;
            }
        }
        rt::task::idle().await;
        let mut held: Option<(u16, u32)> = None;
        let mut got: [u32; 2] = [0, 0];
        let mut rejected = 0usize;
        // a recv that rejected a malformed request while an (unanswered) request was held: whether
        // that older request may still be answered is not settled by the statement, so the next
        // send is judged only for where it writes, not for whether it is accepted
        let mut ambiguous = false;
        for (step, is_send) in seq2.iter().enumerate() {
            let before: Vec<usize> = conns.iter().map(|c| c.tap_len_from(1)).collect();
            if *is_send {
                let reply = match reply_leads[step] {
                    Some(l) => tagged(7, step as u32, &[l, 4]),
                    None => tagged(7, step as u32, &[4]),
                };
                let r = rep.send(to_zmq(&reply)).await;
                if ambiguous {
                    ambiguous = false;
                    held = None;
                    if r.is_err() {
                        rt::task::yield_now().await;
                        if conns.iter().enumerate().any(|(i, c)| c.tap_len_from(1) != before[i]) {
                            vl.borrow_mut().push(("refused_send_wrote_bytes", format!("step {step}: refused reply changed a connection")));
                            return world::park().await;
                        }
                    }
                    continue;
                }
                match (held, r) {
                    (Some((p, _)), Ok(())) => {
                        let msgs = rc::parse_stream(&conns[p as usize].tap_from(1)).messages();
                        let mut e = vec![vec![]];
                        e.extend(reply.iter().cloned());
                        if msgs.last() != Some(&e) {
                            vl.borrow_mut().push(("reply_not_on_requesters_connection", format!("step {step} of {}: reply to partner {p} not found on its connection (last there: {:?})", fmt_seq(&seq2), msgs.last().map(|x| show_msg(x)))));
                            return world::park().await;
                        }
                        let other = 1 - p as usize;
                        if conns[other].tap_len_from(1) != before[other] {
                            vl.borrow_mut().push(("reply_leaked_to_other_connection", format!("step {step}: reply to partner {p} also changed partner {other}'s connection")));
                            return world::park().await;
                        }
                        held = None;
                    }
                    (Some((p, s)), Err(e)) => {
                        vl.borrow_mut().push(("legal_reply_refused", format!("step {step}: reply to request ({p},{s}) failed: {e}")));
                        return world::park().await;
                    }
                    (None, Ok(())) => {
                        vl.borrow_mut().push(("reply_accepted_without_request", format!("step {step} of {}: send accepted although no request is held ({rejected} malformed requests were rejected by recv before)", fmt_seq(&seq2))));
                        return world::park().await;
                    }
                    (None, Err(ZmqError::ReturnToSender { message, .. })) => {
                        if from_zmq(&message) != reply {
                            vl.borrow_mut().push(("refused_message_not_intact", format!("step {step}: handed back {}", show_msg(&from_zmq(&message)))));
                            return world::park().await;
                        }
                        rt::task::yield_now().await;
                        for (i, c) in conns.iter().enumerate() {
                            if c.tap_len_from(1) != before[i] {
                                vl.borrow_mut().push(("refused_send_wrote_bytes", format!("step {step}: refused reply changed connection {i}")));
                                return world::park().await;
                            }
                        }
                    }
                    (None, Err(e)) => {
                        vl.borrow_mut().push(("refused_without_message", format!("step {step}: out-of-turn reply failed with '{e}', which does not hand the message back")));
                        return world::park().await;
                    }
                }
            } else {
                match rep.recv().await {
                    Ok(m) => {
                        let f = from_zmq(&m);
                        match tag_of(&f) {
                            Some((p, s)) if p < 2 && s == got[p as usize] => {
                                got[p as usize] += 1;
                                held = Some((p, s));
                            }
                            other => {
                                vl.borrow_mut().push(("request_out_of_order", format!("step {step}: recv returned {} ({other:?}), expected next of some partner {:?}", show_msg(&f), got)));
                                return world::park().await;
                            }
                        }
                    }
                    Err(_) if rejected < n_malformed => {
                        rejected += 1;
                        rt::count("probe_malformed_request_rejected");
                        if held.is_some() {
                            ambiguous = true;
                        }
                    }
                    Err(e) => {
                        vl.borrow_mut().push(("recv_failed", format!("step {step}: {e}")));
                        return world::park().await;
                    }
                }
            }
        }
        *dn.borrow_mut() = true;
        futures::future::pending::<()>().await;
        drop(rep);
        drop(keep);
    });
    let end = ctx.sim.run(200_000);
    finish(ctx, end, &viol, *done.borrow(), "REP sequence");
    ctx.nontrivial();
    ctx.out.extra_shape = ctx.idx % NSEQ;
    if ctx.want_sample {
        ctx.out.sample = Some(format!("REP call sequence {} against two scripted partners pipelining requests", fmt_seq(&seq)));
    }
}


/// REQ with 2..3 partners of which one dies: a send that FAILED is not a send - the socket must
/// still be in the "may send" state, so the next send goes to a healthy partner and its reply
/// is accepted (a failed call leaves the lock-step state unchanged).
fn req_failed_send(ctx: &mut Ctx) {
    world::swarm(ctx, SwarmOpts::default());
    let npeers = 2 + ctx.plan(2) as usize;
    let dead = ctx.plan(npeers as u64) as usize;
    let by_reset = ctx.plan_bool();
    let pre_rounds = ctx.plan(3) as usize;
    let settle = ctx.plan_bool();
    let viol: Viol = Rc::new(RefCell::new(Vec::new()));
    let done = Rc::new(RefCell::new(false));
    let (vl, dn) = (viol.clone(), done.clone());
    rt::task::spawn_local("app", async move {
        let mut req = ReqSocket::new();
        let ep = req.bind("tcp://127.0.0.1:0").await.expect("bind").to_string();
        let victim: Rc<RefCell<Option<RawPeer>>> = Rc::new(RefCell::new(None));
        for p in 0..npeers {
            let (ep, victim) = (ep.clone(), victim.clone());
            rt::task::spawn_local("partner", async move {
                let Ok(mut peer) = RawPeer::connect(&ep) else { return };
                if peer.hello("REP", None).await.is_err() {
                    return;
                }
                let mut answered = 0usize;
                loop {
                    if p == dead && answered >= pre_rounds {
                        // from now on this partner only waits to be killed
                        *victim.borrow_mut() = Some(peer);
                        return world::park().await;
                    }
                    if !peer.wait_messages(answered + 1).await {
                        break;
                    }
                    let n = peer.inbound().messages().len();
                    while answered < n {
                        if peer.send_msg(&[vec![], format!("reply-from-{p}").into_bytes()]).await.is_err() {
                            return world::park().await;
                        }
                        answered += 1;
                    }
                }
                world::park().await;
            });
        }
        for _ in 0..3 {
            rt::task::idle().await;
        }
        // undisturbed round trips: npeers * pre_rounds of them, so that every partner has answered pre_rounds times
        for r in 0..npeers * pre_rounds {
            if let Err(e) = req.send(to_zmq(&tagged(0, r as u32, &[4]))).await {
                vl.borrow_mut().push(("legal_send_refused", format!("warm-up request {r}: {e}")));
                return world::park().await;
            }
            if let Err(e) = req.recv().await {
                vl.borrow_mut().push(("legal_recv_failed", format!("warm-up reply {r}: {e}")));
                return world::park().await;
            }
        }
        rt::task::idle().await;
        let Some(v) = victim.borrow_mut().take() else {
            vl.borrow_mut().push(("harness", "the victim partner was not parked when expected".into()));
            return world::park().await;
        };
        if by_reset {
            v.reset();
            drop(v);
        } else {
            v.close();
        }
        if settle {
            rt::task::idle().await;
        }
        // one partner is dead: at most one send may fail on it; every other send is in turn, must
        // be accepted, and its reply must be accepted by the recv that follows
        let mut failed = 0usize;
        let mut served = 0usize;
        for t in 0..2 * npeers + 1 {
            match req.send(to_zmq(&tagged(1, t as u32, &[4]))).await {
                Ok(()) => match rt::future::or_idle(req.recv()).await {
                    Some(Ok(_)) => served += 1,
                    Some(Err(e)) => {
                        // the request may have been written to the dying partner before the socket could know
                        failed += 1;
                        if failed > 1 {
                            vl.borrow_mut().push(("reply_lost_after_failed_call", format!("attempt {t}: recv failed ({e}) although the only dead partner had already cost one failed call")));
                            return world::park().await;
                        }
                    }
                    None => {
                        vl.borrow_mut().push(("recv_never_completed", format!("attempt {t}: the request was accepted but no reply ever arrived ({} partners alive)", npeers - 1)));
                        return world::park().await;
                    }
                },
                Err(e) => {
                    failed += 1;
                    rt::count("probe_send_failed_on_dead_partner");
                    if failed > 1 {
                        vl.borrow_mut().push(("send_refused_after_failed_send", format!("attempt {t}: send failed ({e}); one partner of {npeers} is dead and one call had already failed on it - a failed send must leave the socket ready to send to the others")));
                        return world::park().await;
                    }
                }
            }
        }
        if served < npeers {
            vl.borrow_mut().push(("healthy_partners_not_served", format!("only {served} round trips succeeded in {} attempts with {} healthy partners", 2 * npeers + 1, npeers - 1)));
        }
        *dn.borrow_mut() = true;
        world::park().await;
        drop(req);
    });
    let end = ctx.sim.run(300_000);
    finish(ctx, end, &viol, *done.borrow(), "REQ with a dying partner");
    ctx.nontrivial();
    if ctx.want_sample {
        ctx.out.sample = Some(format!("REQ with {npeers} partners; partner {dead} dies by {} after {pre_rounds} rounds each", if by_reset { "reset" } else { "close" }));
    }
}


/// REP under back-pressure: the requester pipelines two requests and does not read; the reply to
/// the first one does not fit, the send is abandoned after k polls (a timeout, a lost select!
/// branch); the requester resumes; the application tries to send again, then serves the second
/// request. Whatever the abandoned send did, the requester must see at most ONE reply to its first
/// request, then the reply to the second, each whole and behind the delimiter.
fn rep_abandoned_send(ctx: &mut Ctx) {
    world::swarm(ctx, SwarmOpts { small_caps: false, ..Default::default() });
    let k = 1 + ctx.plan(3) as u32;
    let big_len = ctx.plan_pick(&[3_000usize, 20_000, 70_000, 200_000]);
    let cap = ctx.plan_pick(&[256usize, 1_000, 9_000]);
    let viol: Viol = Rc::new(RefCell::new(Vec::new()));
    let done = Rc::new(RefCell::new(false));
    let (vl, dn) = (viol.clone(), done.clone());
    rt::task::spawn_local("app", async move {
        let mut rep = RepSocket::new();
        let ep = rep.bind("tcp://127.0.0.1:0").await.expect("bind").to_string();
        let mut a = RawPeer::connect(&ep).expect("connect");
        let _ = a.hello("DEALER", None).await;
        rt::task::idle().await;
        for s in 0..2u32 {
            let mut q = vec![vec![]];
            q.extend(tagged(1, s, &[3]));
            let _ = a.send_msg(&q).await;
        }
        match rep.recv().await {
            Ok(m) if tag_of(&from_zmq(&m)) == Some((1, 0)) => {}
            _ => {
                vl.borrow_mut().push(("request_out_of_order", "the first request was not delivered first".into()));
                return world::park().await;
            }
        }
        // the requester stops reading: only `cap` more bytes are accepted
        let already = a.conn.tap_len_from(1);
        a.conn.set_auto_drain(1, false);
        a.conn.set_cap(1, cap);
        let _ = already;
        let big = tagged(7, 0, &[big_len]);
        let first = rt::future::or_idle(rt::future::poll_budget(rep.send(to_zmq(&big)), k)).await.flatten();
        let abandoned = first.is_none();
        if abandoned {
            rt::count("probe_reply_send_abandoned_under_back_pressure");
        }
        // the requester reads again
        a.conn.set_cap(1, 1 << 40);
        a.conn.set_auto_drain(1, true);
        rt::task::idle().await;
        let retry = tagged(8, 0, &[5]);
        let retried = rep.send(to_zmq(&retry)).await;
        if !abandoned && retried.is_ok() {
            vl.borrow_mut().push(("reply_accepted_without_request", "REP: the reply was sent completely, and a second send before the next recv was accepted".into()));
            return world::park().await;
        }
        match rt::future::or_idle(rep.recv()).await {
            Some(Ok(m)) if tag_of(&from_zmq(&m)) == Some((1, 1)) => {}
            other => {
                vl.borrow_mut().push(("request_out_of_order", format!("the second request was not delivered after the abandoned send: {:?}", other.map(|r| r.map(|m| show_msg(&from_zmq(&m))).map_err(|e| e.to_string())))));
                return world::park().await;
            }
        }
        let reply2 = tagged(9, 0, &[5]);
        if let Err(e) = rep.send(to_zmq(&reply2)).await {
            vl.borrow_mut().push(("legal_reply_refused", format!("the reply to the second request was refused: {e}")));
            return world::park().await;
        }
        rt::task::idle().await;
        let p = a.inbound();
        if let Some((at, e)) = &p.error {
            vl.borrow_mut().push(("reply_stream_malformed", format!("the requester's inbound stream is malformed at byte {at}: {e}")));
            return world::park().await;
        }
        let got = p.messages();
        let w = |m: &Vec<Vec<u8>>| -> Vec<Vec<u8>> {
            let mut v = vec![vec![]];
            v.extend(m.iter().cloned());
            v
        };
        let n = got.len();
        let last_ok = n >= 1 && got[n - 1] == w(&reply2);
        let before: Vec<&Vec<Vec<u8>>> = got[..n.saturating_sub(1)].iter().collect();
        let ok_before = match before.len() {
            0 => true,
            1 => *before[0] == w(&big) || *before[0] == w(&retry),
            _ => false,
        };
        if !last_ok || !ok_before {
            let clause = if before.len() >= 2 { "two_replies_for_one_request" } else { "reply_stream_wrong_after_abandoned_send" };
            vl.borrow_mut().push((clause, format!("REP: send of a {big_len}-byte reply abandoned after {k} poll(s) under back-pressure (it had {}completed), retried send {}: the requester received {:?}; expected at most one reply to its first request, then the reply to the second", if abandoned { "not " } else { "" }, if retried.is_ok() { "accepted" } else { "refused" }, got.iter().map(|m| show_msg(m)).collect::<Vec<_>>())));
        }
        *dn.borrow_mut() = true;
        world::park().await;
        drop(rep);
        drop(a);
    });
    let end = ctx.sim.run(400_000);
    finish(ctx, end, &viol, *done.borrow(), "REP with an abandoned send");
    ctx.nontrivial();
    if ctx.want_sample {
        ctx.out.sample = Some(format!("REP: reply of {big_len} bytes, requester accepts {cap} bytes, send abandoned after {k} polls"));
    }
}

/// 1..4 concurrent clients (scripted and real REQ sockets) against one REP echo server
fn concurrent(ctx: &mut Ctx) {
    world::swarm(ctx, SwarmOpts::default());
    let k = 1 + ctx.plan(4) as usize;
    let real: Vec<bool> = (0..k).map(|_| ctx.plan_bool()).collect();
    let rounds: Vec<u32> = (0..k).map(|_| 1 + ctx.plan(5) as u32).collect();
    let total: u32 = rounds.iter().sum();
    let viol: Viol = Rc::new(RefCell::new(Vec::new()));
    let done = Rc::new(RefCell::new(0usize));
    let (vl, dn) = (viol.clone(), done.clone());
    let (real2, rounds2) = (real.clone(), rounds.clone());
    let raw_conns: Rc<RefCell<Vec<(u16, std::sync::Arc<rt::net::Conn>)>>> = Rc::new(RefCell::new(Vec::new()));
    let rc2 = raw_conns.clone();
    rt::task::spawn_local("server", async move {
        let mut rep = RepSocket::new();
        let ep = rep.bind("tcp://127.0.0.1:0").await.expect("bind").to_string();
        for c in 0..k {
            let (ep, vl, dn, rc3) = (ep.clone(), vl.clone(), dn.clone(), rc2.clone());
            let n = rounds2[c];
            if real2[c] {
                rt::task::spawn_local("client", async move {
                    let mut req = ReqSocket::new();
                    if req.connect(&ep).await.is_err() {
                        vl.borrow_mut().push(("connect_failed", format!("client {c}")));
                        return world::park().await;
                    }
                    for s in 0..n {
                        if let Err(e) = req.send(to_zmq(&tagged(c as u16, s, &[5]))).await {
                            vl.borrow_mut().push(("request_refused", format!("client {c} request {s}: {e}")));
                            return world::park().await;
                        }
                        match req.recv().await {
                            Ok(m) if tag_of(&from_zmq(&m)) == Some((c as u16, s)) => {}
                            Ok(m) => {
                                vl.borrow_mut().push(("client_got_foreign_reply", format!("real client {c} request {s} received {}", show_msg(&from_zmq(&m)))));
                                return world::park().await;
                            }
                            Err(e) => {
                                vl.borrow_mut().push(("reply_not_delivered", format!("client {c} request {s}: {e}")));
                                return world::park().await;
                            }
                        }
                    }
                    *dn.borrow_mut() += 1;
                    futures::future::pending::<()>().await;
                    drop(req);
                });
            } else {
                rt::task::spawn_local("raw-client", async move {
                    let Ok(mut peer) = RawPeer::connect(&ep) else { return };
                    rc3.borrow_mut().push((c as u16, peer.conn.clone()));
                    if peer.hello("REQ", None).await.is_err() {
                        return world::park().await;
                    }
                    for s in 0..n {
                        let mut m = vec![vec![]];
                        m.extend(tagged(c as u16, s, &[5]));
                        if peer.send_msg(&m).await.is_err() {
                            return world::park().await;
                        }
                        if !peer.wait_messages(s as usize + 1).await {
                            vl.borrow_mut().push(("reply_not_delivered", format!("scripted client {c}: connection ended before reply {s}")));
                            return world::park().await;
                        }
                    }
                    *dn.borrow_mut() += 1;
                    futures::future::pending::<()>().await;
                    drop(peer);
                });
            }
        }
        for _ in 0..total {
            match rep.recv().await {
                Ok(m) => {
                    if let Err(e) = rep.send(m).await {
                        vl.borrow_mut().push(("reply_refused", e.to_string()));
                        return world::park().await;
                    }
                }
                Err(e) => {
                    vl.borrow_mut().push(("server_recv_failed", e.to_string()));
                    return world::park().await;
                }
            }
        }
        futures::future::pending::<()>().await;
        drop(rep);
    });
    let end = ctx.sim.run(400_000);
    // every scripted client's connection must carry exactly its own replies, in order
    for (c, conn) in raw_conns.borrow().iter() {
        let msgs = rc::parse_stream(&conn.tap_from(1)).messages();
        for (i, m) in msgs.iter().enumerate() {
            if tag_of(m) != Some((*c, i as u32)) {
                viol.borrow_mut().push(("reply_on_wrong_connection", format!("connection of scripted client {c}: reply #{i} is {}", show_msg(m))));
                break;
            }
        }
    }
    let d = *done.borrow() == k;
    finish(ctx, end, &viol, d, "concurrent REQ/REP");
    if k > 1 {
        ctx.nontrivial();
    }
    if ctx.want_sample {
        ctx.out.sample = Some(format!("{k} clients (real sockets: {:?}) x rounds {:?} against one REP echo server", real, rounds));
    }
}

/// REP with two clients of which one leaves (reset, close, or a write error on its connection)
/// after its request has been received and before the reply is written. That send may fail or be
/// accepted into a dead connection - it must return - and the lock-step goes on with the other
/// client: its request is received next and its reply reaches its connection.
fn rep_requester_gone(ctx: &mut Ctx) {
    world::swarm(ctx, SwarmOpts::default());
    let how = ctx.plan(3);
    let settle = ctx.plan_bool();
    let viol: Viol = Rc::new(RefCell::new(Vec::new()));
    let done = Rc::new(RefCell::new(false));
    let (vl, dn) = (viol.clone(), done.clone());
    rt::task::spawn_local("app", async move {
        let mut rep = RepSocket::new();
        let ep = rep.bind("tcp://127.0.0.1:0").await.expect("bind").to_string();
        let mut a = RawPeer::connect(&ep).expect("connect");
        let _ = a.hello("REQ", None).await;
        let mut b = RawPeer::connect(&ep).expect("connect");
        let _ = b.hello("REQ", None).await;
        rt::task::idle().await;
        let mut q = vec![vec![]];
        q.extend(tagged(1, 0, &[3]));
        let _ = a.send_msg(&q).await;
        match rt::future::or_idle(rep.recv()).await {
            Some(Ok(m)) if tag_of(&from_zmq(&m)) == Some((1, 0)) => {}
            other => {
                vl.borrow_mut().push(("request_not_delivered", format!("first request: {:?}", other.map(|r| r.map(|m| show_msg(&from_zmq(&m))).map_err(|e| e.to_string())))));
                return world::park().await;
            }
        }
        // the requester goes away with its reply owed
        let mut keep_a = None;
        match how {
            0 => {
                a.reset();
                drop(a);
            }
            1 => a.close(),
            _ => {
                a.conn.inject_write_error(1 - a.side, std::io::ErrorKind::ConnectionAborted);
                rt::count("fault_write_error");
                keep_a = Some(a);
            }
        }
        if settle {
            rt::task::idle().await;
        }
        let mut q2 = vec![vec![]];
        q2.extend(tagged(2, 0, &[3]));
        let _ = b.send_msg(&q2).await;
        // the owed reply: whatever its result, the call returns
        let r = rt::future::or_idle(rep.send(to_zmq(&tagged(7, 0, &[4])))).await;
        if r.is_none() {
            vl.borrow_mut().push(("reply_send_never_returns", format!("REP: the requester's connection was gone ({}) when the reply was sent; the send never returned", ["reset", "closed", "failing every write"][how as usize])));
            *dn.borrow_mut() = true;
            return world::park().await;
        }
        rt::count("probe_reply_sent_to_a_requester_that_is_gone");
        // the other client is served
        let mut got = false;
        for _ in 0..4 {
            match rt::future::or_idle(rep.recv()).await {
                Some(Ok(m)) if tag_of(&from_zmq(&m)) == Some((2, 0)) => {
                    got = true;
                    break;
                }
                Some(_) => {}
                None => break,
            }
        }
        if !got {
            vl.borrow_mut().push(("request_not_delivered", "REP: after a reply to a requester that had gone, the other client's request was never delivered".into()));
            *dn.borrow_mut() = true;
            return world::park().await;
        }
        let reply = tagged(7, 1, &[4]);
        match rt::future::or_idle(rep.send(to_zmq(&reply))).await {
            Some(Ok(())) => {}
            other => {
                vl.borrow_mut().push(("legal_send_refused", format!("REP: the reply to the other client was not accepted: {:?}", other.map(|r| r.map_err(|e| e.to_string())))));
                *dn.borrow_mut() = true;
                return world::park().await;
            }
        }
        rt::task::idle().await;
        let mut expect = vec![vec![]];
        expect.extend(reply.iter().cloned());
        if b.inbound().messages() != vec![expect] {
            vl.borrow_mut().push(("reply_not_on_requesters_connection", format!("REP: the other client's connection carries {:?}", b.inbound().messages().iter().map(|m| show_msg(m)).collect::<Vec<_>>())));
        }
        *dn.borrow_mut() = true;
        world::park().await;
        drop(rep);
        drop(b);
        drop(keep_a);
    });
    let end = ctx.sim.run(300_000);
    if end == rt::RunEnd::Budget {
        ctx.violation("no_quiescence", "REP with a requester that goes away: no quiescence".into());
    }
    ctx.check_panics();
    for (c, d) in viol.borrow().clone() {
        ctx.violation(c, d);
    }
    if *done.borrow() {
        ctx.nontrivial();
    } else if end == rt::RunEnd::Quiescent && ctx.sim.rt.panics.borrow().is_empty() && viol.borrow().is_empty() {
        ctx.violation("stuck", "REP with a requester that goes away: the scenario never completed".into());
    }
    if ctx.want_sample {
        ctx.out.sample = Some(format!("REP: client A asks and goes away ({how}), the reply is sent, client B is served"));
    }
}

pub fn def() -> PropDef {
    PropDef {
        id: "C08",
        level: "exploration",
        rule: "req_sequences / rep_sequences: indices 0..125 enumerate every call sequence over {send, recv} of length 1..6 on an undisturbed transport, compared call by call with the reference state machine (REQ: idle/awaiting; REP: reply legal iff a request is held); further indices repeat them under drawn segmentation and schedules; concurrent: 1..4 real/scripted REQ clients against one REP, replies attributed by tag and by connection tap; non-trivial = sequence containing an illegal call, or any REP/concurrent case; distinct = distinct (sequence, plan, schedule, transport)",
        assumptions: &["the REP partner pipelines requests so that recv never waits for a request that cannot come; REP recv while a request is held is not judged (the statement constrains replies only)"],
        strata: vec![
            Stratum { name: "req_sequences", quick: 126 * 60, thorough: (126 * 2000) * 4, exhaustive: (true, true), run: req_sequences, what: "all 126 call sequences <= 6 on REQ (first 126 cases undisturbed), then under random transport" },
            Stratum { name: "rep_sequences", quick: 126 * 60, thorough: (126 * 2000) * 4, exhaustive: (true, true), run: rep_sequences, what: "all 126 call sequences <= 6 on REP with two pipelining partners" },
            Stratum { name: "req_failed_send", quick: 30_000, thorough: 1_500_000, exhaustive: (false, false), run: req_failed_send, what: "REQ with 2..3 partners, one dies: a failed send leaves the socket ready to send to the others" },
            Stratum { name: "rep_requester_gone", quick: 12_000, thorough: 600_000, exhaustive: (false, false), run: rep_requester_gone, what: "REP: a requester goes away (reset, close, write error) with its reply owed; the reply send returns, and the other client is served in lock-step" },
            Stratum { name: "rep_abandoned_send", quick: 30_000, thorough: 1_500_000, exhaustive: (false, false), run: rep_abandoned_send, what: "REP: a reply send is abandoned under back-pressure, then retried: at most one reply per request reaches the requester, in order" },
            Stratum { name: "rejoin_reply", quick: 9_600, thorough: 800_000, exhaustive: (false, false), run: super::c16::rejoin_reply, what: "REP: a client that comes back under its announced identity (16 departure/rejoin histories, incl. the old connection still open) gets the replies to the requests it sends on its new connection" },
            Stratum { name: "concurrent", quick: 100_000, thorough: (1_500_000) * 4, exhaustive: (false, false), run: concurrent, what: "1..4 concurrent clients against one REP" },
        ],
    }
}
