//! C07 — REQ/REP envelopes are added, preserved and stripped exactly.
use crate::fw::{Ctx, PropDef, Stratum};
use crate::refcodec as rc;
use crate::world::{self, from_zmq, show_msg, to_zmq, RawPeer, SwarmOpts, SMALL_GRID};
use std::cell::RefCell;
use std::rc::Rc;
use zeromq::prelude::*;
use zeromq::*;
use zmq_simrt as rt;

type Viol = Rc<RefCell<Vec<(&'static str, String)>>>;

fn frame_of(len: usize, salt: usize) -> Vec<u8> {
    (0..len).map(|i| (i * 7 + salt * 13 + 1) as u8).collect()
}

/// payload of 1..4 frames; frame lengths from the boundary grid, empty frames allowed inside
fn draw_payload(ctx: &Ctx, salt: usize) -> Vec<Vec<u8>> {
    let n = 1 + ctx.plan(4) as usize;
    (0..n)
        .map(|i| {
            let len = if ctx.plan(40) == 0 { ctx.plan_pick(&[8192usize, 65536, 70000]) } else { SMALL_GRID[ctx.plan(SMALL_GRID.len() as u64) as usize] };
            frame_of(len, salt + i)
        })
        .collect()
}
fn draw_prefix(ctx: &Ctx, depth: usize) -> Vec<Vec<u8>> {
    (0..depth)
        .map(|i| {
            let len = ctx.plan_pick(&[1usize, 2, 5, 16, 255]);
            let mut f = frame_of(len, 90 + i);
            if f[0] == 0 {
                f[0] = 1;
            }
            f
        })
        .collect()
}

#[derive(Clone, Debug)]
enum Req {
    /// prefix + delimiter + payload
    Normal { prefix: Vec<Vec<u8>>, payload: Vec<Vec<u8>> },
    /// one frame only (no room for delimiter + payload)
    SingleFrame(Vec<u8>),
    /// prefix + delimiter and nothing after it
    DelimiterLast { prefix: Vec<Vec<u8>> },
}
impl Req {
    fn wire(&self) -> Vec<Vec<u8>> {
        match self {
            Req::Normal { prefix, payload } => {
                let mut v = prefix.clone();
                v.push(vec![]);
                v.extend(payload.iter().cloned());
                v
            }
            Req::SingleFrame(f) => vec![f.clone()],
            Req::DelimiterLast { prefix } => {
                let mut v = prefix.clone();
                v.push(vec![]);
                v
            }
        }
    }
}

/// scripted REQ/DEALER/ROUTER-chain peer -> REP(lib)
fn rep_envelope(ctx: &mut Ctx) {
    world::swarm(ctx, SwarmOpts::default());
    let stype = ["REQ", "DEALER"][(ctx.idx % 2) as usize];
    let nreq = 1 + ctx.plan(4) as usize;
    let mut reqs = Vec::new();
    for i in 0..nreq {
        // the case index walks through prefix depth and degenerate forms; the rest is drawn
        let form = (ctx.idx / 2 + i as u64) % 8;
        let depth = ((ctx.idx / 16 + i as u64) % 4) as usize;
        let r = match form {
            6 => Req::SingleFrame(frame_of(1 + ctx.plan(10) as usize, i)),
            7 => Req::DelimiterLast { prefix: draw_prefix(ctx, depth) },
            _ => Req::Normal { prefix: draw_prefix(ctx, depth), payload: draw_payload(ctx, i * 10) },
        };
        reqs.push(r);
    }
    let replies: Vec<Vec<Vec<u8>>> = (0..nreq).map(|i| draw_payload(ctx, 500 + i * 10)).collect();
    // some requests stay unanswered (the application goes on to the next recv): the reply to a
    // later request retraces that request's route, not the route of an earlier one
    let unanswered: Vec<bool> = (0..nreq).map(|i| i + 1 < nreq && ctx.plan(5) == 0).collect();
    let viol: Viol = Rc::new(RefCell::new(Vec::new()));
    let done = Rc::new(RefCell::new(false));
    let (vl, dn) = (viol.clone(), done.clone());
    let reqs2 = reqs.clone();
    let n_degenerate = reqs.iter().filter(|r| !matches!(r, Req::Normal { .. })).count();
    rt::task::spawn_local("app", async move {
        let mut rep = RepSocket::new();
        let ep = rep.bind("tcp://127.0.0.1:0").await.expect("bind").to_string();
        let mut peer = RawPeer::connect(&ep).expect("connect");
        peer.hello(stype, None).await.expect("hello");
        let conn = peer.conn.clone();
        let mut lib_msgs_seen = 0usize;
        for (i, r) in reqs2.iter().enumerate() {
            if peer.send_msg(&r.wire()).await.is_err() {
                vl.borrow_mut().push(("harness", "peer write failed".into()));
                return world::park().await;
            }
            match r {
                Req::Normal { prefix, payload } => {
                    // errors for earlier degenerate requests may surface first
                    let mut got = None;
                    for _ in 0..4 {
                        match rep.recv().await {
                            Ok(m) => {
                                got = Some(from_zmq(&m));
                                break;
                            }
                            Err(_) => continue,
                        }
                    }
                    let Some(got) = got else {
                        vl.borrow_mut().push(("request_not_delivered", format!("request {i} {} was not handed to the application", show_msg(&r.wire()))));
                        return world::park().await;
                    };
                    if got.is_empty() {
                        vl.borrow_mut().push(("zero_frame_message", format!("REP recv returned a message with zero frames (request {i})")));
                        return world::park().await;
                    }
                    if got != *payload {
                        vl.borrow_mut().push(("rep_recv_payload_modified", format!("request {i}: wire {} -> recv {} expected {}", show_msg(&r.wire()), show_msg(&got), show_msg(payload))));
                        return world::park().await;
                    }
                    if unanswered[i] {
                        rt::count("probe_request_left_unanswered");
                        continue;
                    }
                    if let Err(e) = rep.send(to_zmq(&replies[i])).await {
                        vl.borrow_mut().push(("reply_refused", format!("reply {i} failed: {e}")));
                        return world::park().await;
                    }
                    let msgs = rc::parse_stream(&conn.tap_from(1)).messages();
                    let mut expect = prefix.clone();
                    expect.push(vec![]);
                    expect.extend(replies[i].iter().cloned());
                    if msgs.len() != lib_msgs_seen + 1 || msgs[lib_msgs_seen] != expect {
                        vl.borrow_mut().push(("rep_reply_envelope_wrong", format!("request {i}: reply on the wire {} expected {}", msgs.get(lib_msgs_seen).map(|m| show_msg(m)).unwrap_or("<nothing>".into()), show_msg(&expect))));
                        return world::park().await;
                    }
                    lib_msgs_seen += 1;
                }
                Req::SingleFrame(_) | Req::DelimiterLast { .. } => {
                    // must be rejected (one Err) or dropped (nothing): probe with a bounded poll
                    for _ in 0..3 {
                        rt::task::idle().await;
                    }
                    match rt::future::poll_budget(rep.recv(), 6).await {
                        Some(Ok(m)) => {
                            let f = from_zmq(&m);
                            if f.is_empty() {
                                vl.borrow_mut().push(("zero_frame_message", format!("request {} (no frame after its delimiter) was handed to the application as a message with zero frames", show_msg(&r.wire()))));
                            } else {
                                vl.borrow_mut().push(("degenerate_request_delivered", format!("request {} was delivered as {}", show_msg(&r.wire()), show_msg(&f))));
                            }
                            return world::park().await;
                        }
                        Some(Err(_)) | None => {}
                    }
                }
            }
        }
        *dn.borrow_mut() = true;
        futures::future::pending::<()>().await;
        drop(rep);
    });
    let end = ctx.sim.run(300_000);
    finish(ctx, end, &viol, *done.borrow(), "REP");
    if n_degenerate > 0 {
        ctx.probe("degenerate_request");
        ctx.nontrivial();
    }
    if reqs.iter().any(|r| matches!(r, Req::Normal { prefix, .. } if !prefix.is_empty())) {
        ctx.nontrivial();
    }
    if ctx.want_sample {
        ctx.out.sample = Some(format!("REP vs scripted {stype}: requests {:?}", reqs.iter().map(|r| show_msg(&r.wire())).collect::<Vec<_>>()));
    }
}

fn finish(ctx: &mut Ctx, end: rt::RunEnd, viol: &Viol, done: bool, who: &str) {
    if end == rt::RunEnd::Budget {
        ctx.violation("no_quiescence", format!("{who} envelope world did not become quiescent"));
    }
    let v = viol.borrow().clone();
    let had = !v.is_empty();
    for (c, d) in v {
        if c == "harness" {
            ctx.harness_error(d);
        } else {
            ctx.violation(c, d);
        }
    }
    if !done && !had && end == rt::RunEnd::Quiescent {
        ctx.violation("stuck", format!("{who} script did not finish: a call never completed"));
    }
    ctx.check_panics();
}

/// REQ(lib) vs scripted REP
fn req_envelope(ctx: &mut Ctx) {
    world::swarm(ctx, SwarmOpts::default());
    let n = 1 + ctx.plan(4) as usize;
    let payloads: Vec<Vec<Vec<u8>>> = (0..n).map(|i| draw_payload(ctx, i * 10)).collect();
    let replies: Vec<Vec<Vec<u8>>> = (0..n).map(|i| draw_payload(ctx, 700 + i * 10)).collect();
    let viol: Viol = Rc::new(RefCell::new(Vec::new()));
    let done = Rc::new(RefCell::new(false));
    let (vl, dn) = (viol.clone(), done.clone());
    let (p2, r2) = (payloads.clone(), replies.clone());
    rt::task::spawn_local("app", async move {
        let mut req = ReqSocket::new();
        let ep = req.bind("tcp://127.0.0.1:0").await.expect("bind").to_string();
        let mut peer = RawPeer::connect(&ep).expect("connect");
        peer.hello("REP", None).await.expect("hello");
        for _ in 0..100 {
            rt::task::idle().await;
            if peer.conn.tap_len_from(1) > 64 {
                break;
            }
        }
        rt::task::idle().await;
        for i in 0..p2.len() {
            if let Err(e) = req.send(to_zmq(&p2[i])).await {
                vl.borrow_mut().push(("request_refused", format!("request {i}: {e}")));
                return world::park().await;
            }
            let msgs = peer.inbound().messages();
            let mut expect = vec![vec![]];
            expect.extend(p2[i].iter().cloned());
            if msgs.len() != i + 1 || msgs[i] != expect {
                vl.borrow_mut().push(("req_wire_envelope_wrong", format!("request {i}: wire {} expected {}", msgs.get(i).map(|m| show_msg(m)).unwrap_or("<nothing>".into()), show_msg(&expect))));
                return world::park().await;
            }
            let mut r = vec![vec![]];
            r.extend(r2[i].iter().cloned());
            if peer.send_msg(&r).await.is_err() {
                vl.borrow_mut().push(("harness", "peer write failed".into()));
                return world::park().await;
            }
            match req.recv().await {
                Ok(m) => {
                    let f = from_zmq(&m);
                    if f != r2[i] {
                        vl.borrow_mut().push(("req_recv_payload_modified", format!("reply {i}: wire {} -> recv {} expected {}", show_msg(&r), show_msg(&f), show_msg(&r2[i]))));
                        return world::park().await;
                    }
                }
                Err(e) => {
                    vl.borrow_mut().push(("reply_not_delivered", format!("reply {i}: {e}")));
                    return world::park().await;
                }
            }
        }
        *dn.borrow_mut() = true;
        futures::future::pending::<()>().await;
        drop(req);
    });
    let end = ctx.sim.run(300_000);
    finish(ctx, end, &viol, *done.borrow(), "REQ");
    if payloads.iter().chain(replies.iter()).any(|p| p.len() > 1 && p.iter().any(|f| f.is_empty())) {
        ctx.probe("empty_frame_inside_payload");
        ctx.nontrivial();
    }
    if ctx.want_sample {
        ctx.out.sample = Some(format!("REQ vs scripted REP: payloads {:?}", payloads.iter().map(|p| show_msg(p)).collect::<Vec<_>>()));
    }
}

/// REQ(lib) <-> REP(lib)
fn end_to_end(ctx: &mut Ctx) {
    world::swarm(ctx, SwarmOpts::default());
    let n = 1 + ctx.plan(4) as usize;
    let payloads: Vec<Vec<Vec<u8>>> = (0..n).map(|i| draw_payload(ctx, i * 10)).collect();
    let replies: Vec<Vec<Vec<u8>>> = (0..n).map(|i| draw_payload(ctx, 300 + i * 10)).collect();
    let viol: Viol = Rc::new(RefCell::new(Vec::new()));
    let done = Rc::new(RefCell::new(0u32));
    let (vl, dn) = (viol.clone(), done.clone());
    let (p2, r2) = (payloads.clone(), replies.clone());
    rt::task::spawn_local("server", async move {
        let mut rep = RepSocket::new();
        let ep = rep.bind("tcp://127.0.0.1:0").await.expect("bind").to_string();
        let (vl2, dn2, p3, r3) = (vl.clone(), dn.clone(), p2.clone(), r2.clone());
        rt::task::spawn_local("client", async move {
            let mut req = ReqSocket::new();
            if let Err(e) = req.connect(&ep).await {
                vl2.borrow_mut().push(("connect_failed", e.to_string()));
                return world::park().await;
            }
            for i in 0..p3.len() {
                if let Err(e) = req.send(to_zmq(&p3[i])).await {
                    vl2.borrow_mut().push(("request_refused", format!("request {i}: {e}")));
                    return world::park().await;
                }
                match req.recv().await {
                    Ok(m) if from_zmq(&m) == r3[i] => {}
                    Ok(m) => {
                        vl2.borrow_mut().push(("reply_modified", format!("reply {i}: got {} expected {}", show_msg(&from_zmq(&m)), show_msg(&r3[i]))));
                        return world::park().await;
                    }
                    Err(e) => {
                        vl2.borrow_mut().push(("reply_not_delivered", format!("reply {i}: {e}")));
                        return world::park().await;
                    }
                }
            }
            *dn2.borrow_mut() += 1;
            futures::future::pending::<()>().await;
            drop(req);
        });
        for i in 0..p2.len() {
            match rep.recv().await {
                Ok(m) if from_zmq(&m) == p2[i] => {}
                Ok(m) => {
                    vl.borrow_mut().push(("request_modified", format!("request {i}: got {} expected {}", show_msg(&from_zmq(&m)), show_msg(&p2[i]))));
                    return world::park().await;
                }
                Err(e) => {
                    vl.borrow_mut().push(("request_not_delivered", format!("request {i}: {e}")));
                    return world::park().await;
                }
            }
            if let Err(e) = rep.send(to_zmq(&r2[i])).await {
                vl.borrow_mut().push(("reply_refused", format!("reply {i}: {e}")));
                return world::park().await;
            }
        }
        *dn.borrow_mut() += 1;
        futures::future::pending::<()>().await;
        drop(rep);
    });
    let end = ctx.sim.run(300_000);
    let d = *done.borrow() == 2;
    finish(ctx, end, &viol, d, "REQ<->REP");
    ctx.nontrivial();
    if ctx.want_sample {
        ctx.out.sample = Some(format!("REQ<->REP end to end: {} round trips, payloads {:?}", n, payloads.iter().map(|p| show_msg(p)).collect::<Vec<_>>()));
    }
}


/// REQ with 2..3 scripted REP partners, one of which dies: whatever the rotation has to skip,
/// every request that reaches a partner is exactly one delimiter + the payload, every reply comes
/// back with exactly the delimiter removed, and a message handed back is the payload as given.
fn req_partner_gone(ctx: &mut Ctx) {
    world::swarm(ctx, SwarmOpts::default());
    let npeers = 2 + ctx.plan(2) as usize;
    let dead = ctx.plan(npeers as u64) as usize;
    let by_reset = ctx.plan_bool();
    let pre_rounds = ctx.plan(3) as usize;
    let nreq = 2 * npeers + 2;
    let payloads: Vec<Vec<Vec<u8>>> = (0..nreq + npeers * pre_rounds).map(|i| draw_payload(ctx, 7 * i)).collect();
    let replies: Vec<Vec<u8>> = (0..npeers).map(|p| format!("reply-from-{p}").into_bytes()).collect();
    let viol: Viol = Rc::new(RefCell::new(Vec::new()));
    let done = Rc::new(RefCell::new(false));
    let (vl, dn) = (viol.clone(), done.clone());
    let taps: Rc<RefCell<Vec<std::sync::Arc<rt::net::Conn>>>> = Rc::new(RefCell::new(Vec::new()));
    let (tp, pl2, rp2) = (taps.clone(), payloads.clone(), replies.clone());
    rt::task::spawn_local("app", async move {
        let (payloads, replies) = (pl2, rp2);
        let mut req = ReqSocket::new();
        let ep = req.bind("tcp://127.0.0.1:0").await.expect("bind").to_string();
        let victim: Rc<RefCell<Option<RawPeer>>> = Rc::new(RefCell::new(None));
        for p in 0..npeers {
            let (ep, victim, tp, reply) = (ep.clone(), victim.clone(), tp.clone(), replies[p].clone());
            rt::task::spawn_local("partner", async move {
                let Ok(mut peer) = RawPeer::connect(&ep) else { return };
                tp.borrow_mut().push(peer.conn.clone());
                if peer.hello("REP", None).await.is_err() {
                    return;
                }
                let mut answered = 0usize;
                loop {
                    if p == dead && answered >= pre_rounds {
                        *victim.borrow_mut() = Some(peer);
                        return world::park().await;
                    }
                    if !peer.wait_messages(answered + 1).await {
                        break;
                    }
                    let n = peer.inbound().messages().len();
                    while answered < n {
                        if peer.send_msg(&[vec![], reply.clone(), vec![], b"tail".to_vec()]).await.is_err() {
                            return world::park().await;
                        }
                        answered += 1;
                    }
                }
                world::park().await;
            });
        }
        for _ in 0..3 {
            rt::task::idle().await;
        }
        let mut next = 0usize;
        let mut failed = 0usize;
        for r in 0..npeers * pre_rounds + nreq {
            if r == npeers * pre_rounds {
                rt::task::idle().await;
                let Some(v) = victim.borrow_mut().take() else {
                    vl.borrow_mut().push(("harness", "the victim partner was not parked when expected".into()));
                    return world::park().await;
                };
                if by_reset {
                    v.reset();
                    drop(v);
                } else {
                    v.close();
                }
            }
            let q = payloads[next].clone();
            next += 1;
            match req.send(to_zmq(&q)).await {
                Ok(()) => match rt::future::or_idle(req.recv()).await {
                    Some(Ok(m)) => {
                        let f = from_zmq(&m);
                        if f.len() != 3 || !f[0].starts_with(b"reply-from-") || !f[1].is_empty() || f[2] != b"tail" {
                            vl.borrow_mut().push(("req_recv_payload_modified", format!("request {r}: the reply [,reply-from-p,,tail] on the wire was returned as {}", show_msg(&f))));
                            return world::park().await;
                        }
                    }
                    Some(Err(_)) | None => failed += 1,
                },
                Err(ZmqError::ReturnToSender { message, .. }) => {
                    failed += 1;
                    if from_zmq(&message) != q {
                        vl.borrow_mut().push(("returned_message_not_intact", format!("request {r}: send handed back {} instead of {}", show_msg(&from_zmq(&message)), show_msg(&q))));
                        return world::park().await;
                    }
                }
                Err(_) => failed += 1,
            }
            if failed > 2 {
                break;
            }
        }
        rt::task::idle().await;
        *dn.borrow_mut() = true;
        world::park().await;
        drop(req);
    });
    let end = ctx.sim.run(400_000);
    finish(ctx, end, &viol, *done.borrow(), "REQ with a partner that goes away");
    // every request on any partner's connection: exactly one delimiter, then one of the payloads as given
    if *done.borrow() {
        for (i, c) in taps.borrow().iter().enumerate() {
            for m in rc::parse_stream(&c.tap_from(1)).messages() {
                let ok = m.len() >= 2 && m[0].is_empty() && payloads.iter().any(|p| p[..] == m[1..]);
                if !ok {
                    ctx.violation("req_wire_envelope_wrong", format!("a request reached partner {i} as {} - expected exactly one empty delimiter followed by the application's frames (partner {dead} had gone away by {})", show_msg(&m), if by_reset { "reset" } else { "close" }));
                    break;
                }
            }
        }
        ctx.nontrivial();
    }
    if ctx.want_sample {
        ctx.out.sample = Some(format!("REQ with {npeers} partners; partner {dead} goes away after {pre_rounds} rounds each; envelopes checked on every partner's connection"));
    }
}

pub fn def() -> PropDef {
    PropDef {
        id: "C07",
        level: "exploration",
        rule: "rep_envelope: case index walks peer type (REQ/DEALER), request form (6 normal : single-frame : delimiter-last) and prefix depth 0..3, one request in five is left unanswered before the next recv, payload frame lengths drawn from the boundary grid with empty frames inside; req_envelope / end_to_end: drawn payloads; req_partner_gone: REQ with 2..3 scripted partners of which one dies (the rotation then has stale entries to skip): every request on every partner's tap is one delimiter + the frames as given, replies with empty frames inside come back with exactly the delimiter removed, a handed-back message is intact; every case also draws transport segmentation and schedule; non-trivial = degenerate form, non-empty routing prefix, empty frame inside a payload, or two real sockets; distinct = distinct (plan, schedule, transport) hashes",
        assumptions: &["requests without any empty frame are outside the statement and are not generated (except the single-frame form, which cannot hold delimiter + payload)"],
        strata: vec![
            Stratum { name: "rep_envelope", quick: 60_000, thorough: (1_000_000) * 2, exhaustive: (false, false), run: rep_envelope, what: "scripted REQ/DEALER/ROUTER-chain requests into a REP socket, reply envelope on the wire" },
            Stratum { name: "req_envelope", quick: 30_000, thorough: (500_000) * 2, exhaustive: (false, false), run: req_envelope, what: "REQ socket against a scripted REP" },
            Stratum { name: "req_partner_gone", quick: 30_000, thorough: 1_000_000, exhaustive: (false, false), run: req_partner_gone, what: "REQ with 2..3 partners, one goes away: envelope of every request on every partner's connection, replies, handed-back messages" },
            Stratum { name: "end_to_end", quick: 25_000, thorough: (500_000) * 2, exhaustive: (false, false), run: end_to_end, what: "REQ socket against REP socket" },
        ],
    }
}
