//! C02 — stream reassembly is independent of how the bytes were segmented.
//!
//! A scripted peer sends one byte stream S under many partitions into reads. A partition is
//! executed exactly: chunk i+1 is released only when the reader has drained chunk i and the whole
//! simulation is idle (read chunking and latency are off in these strata).
use crate::fw::{Ctx, PropDef, Stratum};
use crate::refcodec as rc;
use crate::socks::{AnySock, Kind};
use crate::world::{self, from_zmq, show_msg, to_zmq, RawPeer, SwarmOpts};
use std::cell::RefCell;
use std::rc::Rc;
use zmq_simrt as rt;

const KINDS: [Kind; 7] = [Kind::Pull, Kind::Dealer, Kind::Sub, Kind::Router, Kind::Xpub, Kind::Rep, Kind::Req];

/// the three 16-byte item suffixes whose 2^15 partitions are enumerated
fn suffix(n: u64) -> Vec<u8> {
    match n % 3 {
        // [a,bc] [""] [d] ["",""]
        0 => vec![1, 1, b'a', 0, 2, b'b', b'c', 0, 0, 0, 1, b'd', 1, 0, 0, 0],
        // long-form size for a 1-byte last frame; then [f,g]
        1 => vec![2, 0, 0, 0, 0, 0, 0, 0, 1, b'e', 1, 1, b'f', 0, 1, b'g'],
        // a READY command between messages: CMD [h] ["",i]
        _ => vec![4, 6, 5, b'R', b'E', b'A', b'D', b'Y', 0, 1, b'h', 1, 0, 0, 1, b'i'],
    }
}

fn body(len: usize, salt: usize) -> Vec<u8> {
    (0..len).map(|i| (i * 3 + salt * 17 + 2) as u8).collect()
}

/// a drawn stream: READY with k extra properties, messages of 1..N frames incl. empty and > 8 KiB
/// frames, READY commands between messages
fn draw_stream(ctx: &Ctx, kind: Kind, short: bool) -> Vec<u8> {
    draw_stream_x(ctx, kind, short, false)
}

/// `big`: one frame of the stream is of a size at which buffers change hands (64 KiB, 1 MiB, ...)
/// and more messages follow it
fn draw_stream_x(ctx: &Ctx, kind: Kind, short: bool, big: bool) -> Vec<u8> {
    let mut s = rc::greeting_default();
    let k = ctx.plan(3) as usize;
    let mut props: Vec<(Vec<u8>, Vec<u8>)> = vec![(b"Socket-Type".to_vec(), kind.peers()[0].as_bytes().to_vec())];
    for i in 0..k {
        // mostly short values; one in six is long enough to push READY into the long (8-byte size)
        // command form, where a cut can fall inside a large command body
        let len = if ctx.plan(6) == 0 { 300 + ctx.plan(400) as usize } else { ctx.plan(40) as usize };
        props.push((format!("X-Prop{i}").into_bytes(), body(len, i)));
    }
    if ctx.plan(4) == 0 {
        let mut id = body(225 + ctx.plan(31) as usize, 9);
        for b in id.iter_mut() {
            *b |= 1;
        }
        props.push((b"Identity".to_vec(), id));
    }
    let pr: Vec<(&[u8], &[u8])> = props.iter().map(|(a, b)| (&a[..], &b[..])).collect();
    s.extend(rc::ready(&pr));
    let nm = if short { 1 + ctx.plan(2) } else { 1 + ctx.plan(5) } as usize + if big { 2 } else { 0 };
    let big_at = if big { (ctx.plan(2) as usize, ctx.plan(2) as usize) } else { (usize::MAX, 0) };
    for m in 0..nm {
        if ctx.plan(5) == 0 {
            s.extend(rc::ready_for(kind.peers()[0], None));
        }
        // one drawn stream in sixteen ends in a message of 65..304 tiny frames: more frames than any
        // per-call or per-read bound in the decoder, in as few segments as the partition gives
        let many = !short && !big && ctx.idx % 16 == 5 && m == nm - 1;
        let nf = if many { 65 + ctx.plan(240) as usize } else { 1 + ctx.plan(if short { 2 } else { 4 }) as usize };
        let mut frames: Vec<Vec<u8>> = Vec::new();
        if matches!(kind, Kind::Rep | Kind::Req) {
            frames.push(vec![]);
        }
        for f in 0..nf {
            let len = if (m, f) == (big_at.0, big_at.1.min(nf - 1)) {
                ctx.plan_pick(&[1usize << 16, (1 << 16) + 7, (1 << 20) - 1, 1 << 20, (1 << 20) + 1, 2 << 20, (1 << 20) + 8192])
            } else if short || many {
                ctx.plan(4) as usize
            } else {
                match ctx.plan(8) {
                    0 => 0,
                    1 => ctx.plan_pick(&[255usize, 256]),
                    2 => ctx.plan_pick(&[8191usize, 8192, 8193, 9000, 16400]),
                    _ => ctx.plan(60) as usize,
                }
            };
            frames.push(body(len, m * 7 + f));
        }
        s.extend(rc::encode_msg(&frames));
    }
    s
}

/// what recv must yield for the stream, per socket kind (None = an error result)
fn expected(kind: Kind, s: &[u8]) -> Vec<Option<Vec<Vec<u8>>>> {
    if kind == Kind::Req {
        // REQ hands every post-handshake item to its caller: a command is an error result, a
        // reply is returned minus its delimiter
        return rc::parse_stream(s)
            .items
            .iter()
            .skip(2)
            .map(|it| match &it.item {
                rc::Item::Message(m) if m.len() >= 2 && m[0].is_empty() => Some(m[1..].to_vec()),
                _ => None,
            })
            .collect();
    }
    rc::parse_stream(s).messages().into_iter().map(|m| super::recv::expected_recv(kind, &m, Some(b""))).collect()
}

struct Out {
    results: Vec<Result<Vec<Vec<u8>>, String>>,
    done: bool,
    boundaries: Vec<usize>,
}

/// run stream `s` under the partition given by sorted cut offsets; returns the recv results
fn run_partition(ctx: &mut Ctx, kind: Kind, s: Vec<u8>, cuts: Vec<usize>, exact: bool) -> Rc<RefCell<Out>> {
    let out = Rc::new(RefCell::new(Out { results: vec![], done: false, boundaries: cuts.clone() }));
    let o2 = out.clone();
    let n_expected = rc::parse_stream(&s).messages().len();
    rt::task::spawn_local("app", async move {
        let mut sock = AnySock::new(kind, None);
        let ep = sock.bind("tcp://127.0.0.1:0").await.expect("bind").to_string();
        let mut peer = RawPeer::connect(&ep).expect("connect");
        let o3 = o2.clone();
        // the receiving application runs concurrently with the segmented sender
        let app = rt::task::spawn_local("receiver", async move {
            let mut errs = 0;
            let mut outstanding = false;
            loop {
                if kind == Kind::Req && !outstanding {
                    // keep one request outstanding (REQ reads only then); before admission the
                    // send is refused, so retry at idle points
                    match sock.send(to_zmq(&[b"q".to_vec()])).await {
                        Ok(()) => outstanding = true,
                        Err(_) => {
                            if o3.borrow().done {
                                break;
                            }
                            rt::task::idle().await;
                            continue;
                        }
                    }
                }
                match rt::future::or_idle(sock.recv()).await {
                    Some(Ok(m)) => {
                        outstanding = false;
                        let f = from_zmq(&m);
                        o3.borrow_mut().results.push(Ok(f));
                        if kind == Kind::Rep {
                            let _ = sock.send(to_zmq(&[b"r".to_vec()])).await;
                        }
                    }
                    Some(Err(e)) => {
                        outstanding = false;
                        o3.borrow_mut().results.push(Err(e.to_string()));
                        errs += 1;
                        if errs > 8 {
                            break;
                        }
                    }
                    None => {
                        // idle: either the sender still has chunks to release, or we are done
                        if o3.borrow().done {
                            break;
                        }
                        rt::task::yield_now().await;
                    }
                }
            }
            world::park().await;
            drop(sock);
        });
        let mut prev = 0;
        let mut bounds = cuts.clone();
        bounds.push(s.len());
        for b in bounds {
            if b <= prev || b > s.len() {
                continue;
            }
            if peer.send(&s[prev..b]).await.is_err() {
                break;
            }
            prev = b;
            if exact {
                // the reader drains this chunk and parks before the next one is released
                rt::task::idle().await;
            } else {
                rt::task::yield_now().await;
            }
        }
        rt::task::idle().await;
        o2.borrow_mut().done = true;
        let _ = n_expected;
        let _ = app;
        world::park().await;
        drop(peer);
    });
    out
}

fn judge(ctx: &mut Ctx, kind: Kind, s: &[u8], out: &Rc<RefCell<Out>>, end: rt::RunEnd, label: &str) {
    if end == rt::RunEnd::Budget {
        ctx.violation("no_quiescence", format!("{} under partition {label}: no quiescence", kind.name()));
        return;
    }
    let o = out.borrow();
    let exp = expected(kind, s);
    let got: Vec<Option<Vec<Vec<u8>>>> = o.results.iter().map(|r| r.as_ref().ok().cloned()).collect();
    // ROUTER prefixes an identity the harness does not know (auto-assigned): compare the rest
    let norm = |v: &Option<Vec<Vec<u8>>>| -> Option<Vec<Vec<u8>>> { v.as_ref().map(|m| if kind == Kind::Router && !m.is_empty() { m[1..].to_vec() } else { m.clone() }) };
    let g: Vec<_> = got.iter().map(norm).collect();
    let e: Vec<_> = exp.iter().map(norm).collect();
    if g != e {
        let at = g.iter().zip(e.iter()).position(|(a, b)| a != b).unwrap_or(g.len().min(e.len()));
        let clause = if g.len() < e.len() && g[..] == e[..g.len()] {
            "items_lost_under_partition"
        } else if g.len() > e.len() && g[..e.len()] == e[..] {
            "extra_items_under_partition"
        } else {
            "items_differ_under_partition"
        };
        ctx.violation(clause, format!("{} decoding a {}-byte stream under partition {label} (cuts at {:?}): result #{at} is {:?}, the reference decode of the same bytes gives {:?} ({} vs {} items)", kind.name(), s.len(), &o.boundaries[..o.boundaries.len().min(12)], g.get(at).map(|x| x.as_ref().map(|m| show_msg(m))), e.get(at).map(|x| x.as_ref().map(|m| show_msg(m))), g.len(), e.len()));
    }
    // where did the boundaries fall? (reach probes)
    let p = rc::parse_stream(s);
    for b in &o.boundaries {
        if *b < 64 {
            ctx.probe("boundary_inside_greeting");
        } else if let Some(it) = p.items.iter().find(|it| it.start < *b && *b < it.end) {
            match &it.item {
                rc::Item::Command { .. } => ctx.probe("boundary_inside_command"),
                rc::Item::Message(_) => {
                    if *b == it.start + 1 {
                        ctx.probe("boundary_after_flags_byte");
                    } else {
                        ctx.probe("boundary_inside_message");
                    }
                }
                _ => {}
            }
        } else {
            ctx.probe("boundary_between_items");
        }
    }
    if p.items.len() >= 3 {
        let ready_end = p.items[1].end;
        if !o.boundaries.contains(&ready_end) {
            ctx.probe("message_coalesced_with_ready");
        }
    }
    if !o.boundaries.is_empty() {
        ctx.nontrivial();
    }
}

fn kind_of(idx: u64) -> Kind {
    KINDS[(idx % KINDS.len() as u64) as usize]
}

/// all 2^15 partitions of the last 16 bytes of three streams (PULL), enumerated by index
fn all_partitions_16(ctx: &mut Ctx) {
    world::plain(ctx);
    let kind = Kind::Pull;
    // quick tier: a pseudo-random sample of the 3 x 2^15 space; thorough: the index is the case
    let x = if ctx.tier == crate::fw::Tier::Quick { rt::tape::mix(ctx.idx, 77) % (3 << 15) } else { ctx.idx };
    let which = x >> 15;
    let mask = x & 0x7fff;
    let mut s = rc::greeting_default();
    s.extend(rc::ready_for("PUSH", None));
    let base = s.len();
    s.extend(suffix(which));
    let cuts: Vec<usize> = (0..15).filter(|b| mask >> b & 1 == 1).map(|b| base + 1 + b as usize).collect();
    ctx.out.extra_shape = ctx.idx;
    let out = run_partition(ctx, kind, s.clone(), cuts, true);
    let end = ctx.sim.run(100_000);
    judge(ctx, kind, &s, &out, end, &format!("mask {mask:#06x} of suffix {which}"));
    ctx.check_panics();
    if ctx.want_sample {
        ctx.out.sample = Some(format!("PULL: stream = greeting + READY + 16-byte suffix #{which}, partition mask {mask:#06x}"));
    }
}

/// every single cut and every pair of cuts of a short drawn stream
fn cuts_enumerated(ctx: &mut Ctx) {
    world::plain(ctx);
    let kind = kind_of(ctx.idx);
    let s = draw_stream(ctx, kind, true);
    let n = s.len();
    // the second plan draw block picks which cut(s): enumerated through the case index
    let sel = ctx.idx / KINDS.len() as u64;
    let cuts: Vec<usize> = if sel % 2 == 0 {
        vec![1 + (sel / 2 % (n as u64 - 1)) as usize]
    } else {
        let a = 1 + (sel / 2 % (n as u64 - 1)) as usize;
        let b = 1 + (sel / 2 / (n as u64 - 1) % (n as u64 - 1)) as usize;
        let mut v = vec![a.min(b), a.max(b)];
        v.dedup();
        v
    };
    let out = run_partition(ctx, kind, s.clone(), cuts.clone(), true);
    let end = ctx.sim.run(200_000);
    judge(ctx, kind, &s, &out, end, "cuts");
    ctx.check_panics();
    if ctx.want_sample {
        ctx.out.sample = Some(format!("{}: {}-byte drawn stream cut at {:?}", kind.name(), n, cuts));
    }
}

fn byte_at_a_time(ctx: &mut Ctx) {
    world::plain(ctx);
    let kind = kind_of(ctx.idx);
    let s = draw_stream(ctx, kind, true);
    let cuts: Vec<usize> = (1..s.len()).collect();
    let out = run_partition(ctx, kind, s.clone(), cuts, true);
    let end = ctx.sim.run(400_000);
    judge(ctx, kind, &s, &out, end, "byte-at-a-time");
    ctx.check_panics();
    if ctx.want_sample {
        ctx.out.sample = Some(format!("{}: {}-byte drawn stream delivered one byte per read", kind.name(), s.len()));
    }
}

/// long streams: geometric random partitions and cuts at +-1 of the reader's 8 KiB block
fn random_partitions(ctx: &mut Ctx) {
    let kind = kind_of(ctx.idx);
    let exact = ctx.idx % 3 != 0;
    // one stream in 24 carries a frame of 64 KiB .. 2 MiB with further messages behind it
    let big = ctx.idx % 24 >= 22;
    if exact {
        world::plain(ctx);
    } else {
        // inexact: the library's own read chunking, yields and latency add to the partition
        world::swarm(ctx, SwarmOpts { tiny_chunks: !big, ..SwarmOpts::default() });
    }
    let s = draw_stream_x(ctx, kind, false, big);
    let n = s.len();
    let mut cuts: Vec<usize> = Vec::new();
    match ctx.plan(3) {
        0 => {
            let mut p = 0usize;
            loop {
                p += 1 + ctx.plan_pick(&[1u64, 2, 5, 20, 100, 1000, 8192]) as usize * (1 + ctx.plan(3) as usize) / 2;
                if p >= n {
                    break;
                }
                cuts.push(p);
            }
        }
        1 => {
            for k in 1..=(n / 8192) {
                let d = ctx.plan(3) as usize;
                let c = k * 8192 + d - 1;
                if c > 0 && c < n {
                    cuts.push(c);
                }
            }
        }
        _ => {
            // cuts at item boundaries +-1
            for it in rc::parse_stream(&s).items {
                let d = ctx.plan(3) as usize;
                let c = (it.end + d).saturating_sub(1);
                if c > 0 && c < n && cuts.last() != Some(&c) {
                    cuts.push(c);
                }
            }
        }
    }
    cuts.sort();
    cuts.dedup();
    let out = run_partition(ctx, kind, s.clone(), cuts.clone(), exact);
    let end = ctx.sim.run(600_000);
    judge(ctx, kind, &s, &out, end, if exact { "random(exact)" } else { "random(+transport knobs)" });
    ctx.check_panics();
    if ctx.want_sample {
        ctx.out.sample = Some(format!("{}: {}-byte drawn stream with {} cuts (first {:?})", kind.name(), n, cuts.len(), &cuts[..cuts.len().min(8)]));
    }
}

pub fn def() -> PropDef {
    PropDef {
        id: "C02",
        level: "exploration",
        rule: "the same byte stream (greeting, READY with 0..2 extra properties of up to 700 bytes and, one case in four, an Identity of 225..255 bytes - i.e. also READY in the long command form -, messages of 1..4 frames incl. empty and > 8 KiB frames, READY commands in between) is decoded by a real socket under many partitions into reads and compared with the reference decode of the concatenation; all_partitions_16: index = suffix (3) x 15-bit cut mask over the last 16 bytes, all 98304 enumerated in the thorough tier; cuts_enumerated: single cuts and cut pairs of short streams walked by the index; byte_at_a_time; random_partitions: geometric, +-1 around the 8 KiB read block, +-1 around item boundaries; receiving kinds PULL, DEALER, SUB, ROUTER, XPUB, REP, REQ; non-trivial = at least one cut; distinct = distinct (case, plan, schedule, transport)",
        assumptions: &["exact strata: whole-chunk reads, no latency, next chunk released at the idle barrier, so the executed partition is exactly the planned one", "REQ reads only while a request is outstanding; its application keeps one outstanding"],
        strata: vec![
            Stratum { name: "all_partitions_16", quick: 12_000, thorough: 3 << 15, exhaustive: (false, true), run: all_partitions_16, what: "all 2^15 partitions of a 16-byte item suffix, three suffixes (thorough: complete)" },
            Stratum { name: "cuts_enumerated", quick: 60_000, thorough: (600_000) * 8, exhaustive: (false, false), run: cuts_enumerated, what: "every single cut / pairs of cuts of short streams" },
            Stratum { name: "byte_at_a_time", quick: 6_000, thorough: (60_000) * 8, exhaustive: (false, false), run: byte_at_a_time, what: "one byte per read" },
            Stratum { name: "random_partitions", quick: 30_000, thorough: (500_000) * 8, exhaustive: (false, false), run: random_partitions, what: "long streams, geometric / block-aligned / item-aligned cuts" },
        ],
    }
}
