//! C12 — a slow subscriber never blocks the publisher or corrupts its own stream.
use crate::fw::{Ctx, PropDef, Stratum};
use crate::oracle;
use crate::refcodec as rc;
use crate::socks::{AnySock, Kind};
use crate::world::{self, from_zmq, to_zmq, RawPeer, SwarmOpts};
use std::cell::RefCell;
use std::rc::Rc;
use zmq_simrt as rt;

const SIZES: [usize; 9] = [10, 1000, 60_000, 130_000, 131_060, 131_072, 131_100, 140_000, 200_000];

#[derive(Clone, Copy, Debug, PartialEq)]
enum Pattern {
    /// accept `k` more bytes after the handshake, then stall for good
    AcceptThenStall(usize),
    /// stall from message a, resume at message b
    StallResume(usize, usize),
    /// never drain: tiny capacity from the start
    NeverDrain,
    /// close after message a
    BrokenPipe(usize),
    /// healthy but with co-operative yields on writes
    Yielding,
    /// from message a on the subscriber does not read, and its own sending direction ends: it shuts
    /// it down (false) or sends bytes the decoder rejects (true). The socket learns on its read
    /// side that the peer is gone while its write side is merely stalled with a backlog
    StallThenEndInbound(usize, bool),
}

struct Out {
    viol: Vec<(&'static str, String)>,
    done: bool,
    published: Vec<Vec<Vec<u8>>>,
    healthy_tap: Vec<u8>,
    victim_taps: Vec<(Pattern, Vec<u8>, u64)>,
    drops_possible: bool,
}

fn payload(i: usize, size: usize) -> Vec<Vec<u8>> {
    let mut body: Vec<u8> = Vec::with_capacity(size + 8);
    body.extend((0..size).map(|j| (i * 31 + j) as u8));
    body.extend_from_slice(&[0xA5, 0x5A, 0, 0]);
    body.extend_from_slice(&(i as u32).to_be_bytes());
    // frame structure varies with the message number: topic + body, topic + body in two frames
    // (a dropped message must be dropped whole, whatever its frame count), one frame only
    match i % 3 {
        0 => vec![b"t".to_vec(), body],
        1 => {
            let tail = body.split_off(body.len() / 2);
            vec![b"t".to_vec(), body, tail]
        }
        _ => {
            let mut one = b"t".to_vec();
            one.extend(body);
            vec![one]
        }
    }
}

pub fn slow_world(ctx: &mut Ctx) {
    let kind = if ctx.idx % 2 == 0 { Kind::Pub } else { Kind::Xpub };
    world::swarm(ctx, SwarmOpts { tiny_chunks: false, small_caps: false, ..Default::default() });
    let m = 3 + ctx.plan(10) as usize;
    let sizes: Vec<usize> = (0..m).map(|_| SIZES[ctx.plan(SIZES.len() as u64) as usize]).collect();
    let nvict = 1 + ctx.plan(2) as usize;
    let overlapping = ctx.plan_bool();
    let patterns: Vec<Pattern> = (0..nvict)
        .map(|v| {
            // the case index walks the stall pattern of the first victim
            let which = if v == 0 { (ctx.idx / 2) % 6 } else { ctx.plan(6) };
            match which {
                0 => Pattern::AcceptThenStall(ctx.plan_pick(&[0usize, 1, 100, 65_536, 131_071, 131_072, 131_073, 300_000])),
                1 => {
                    let a = ctx.plan(m as u64) as usize;
                    Pattern::StallResume(a, a + 1 + ctx.plan((m - a) as u64) as usize)
                }
                2 => Pattern::NeverDrain,
                3 => Pattern::BrokenPipe(ctx.plan(m as u64) as usize),
                4 => Pattern::StallThenEndInbound(1 + ctx.plan(m as u64 - 1) as usize, ctx.plan_bool()),
                _ => Pattern::Yielding,
            }
        })
        .collect();
    let out = Rc::new(RefCell::new(Out { viol: vec![], done: false, published: vec![], healthy_tap: vec![], victim_taps: vec![], drops_possible: false }));
    let o2 = out.clone();
    let pats = patterns.clone();
    let sizes_s = sizes.clone();
    rt::task::spawn_local("app", async move {
        let mut sock = AnySock::new(kind, None);
        let ep = sock.bind("tcp://127.0.0.1:0").await.expect("bind").to_string();
        let mut healthy = RawPeer::connect(&ep).expect("connect");
        healthy.hello("SUB", None).await.expect("hello");
        healthy.conn.set_io(1, |io| io.wyield_pm = 0);
        healthy.conn.set_cap(1, 1 << 40);
        healthy.send_msg(&[vec![1]]).await.expect("subscribe");
        if overlapping {
            // several subscriptions that all match: still one copy of each message
            healthy.send_msg(&[vec![1, b't']]).await.expect("subscribe");
            healthy.send_msg(&[vec![1]]).await.expect("subscribe");
        }
        let mut victims: Vec<Option<RawPeer>> = Vec::new();
        for p in &pats {
            let mut v = RawPeer::connect(&ep).expect("connect");
            v.hello("SUB", None).await.expect("hello");
            v.send_msg(&[vec![1]]).await.expect("subscribe");
            if overlapping {
                v.send_msg(&[vec![1, b't']]).await.expect("subscribe");
            }
            if *p != Pattern::Yielding {
                v.conn.set_io(1, |io| io.wyield_pm = 0);
            }
            victims.push(Some(v));
        }
        // admission + subscriptions processed
        if kind == Kind::Xpub {
            while let Some(r) = rt::future::or_idle(sock.recv()).await {
                if r.is_err() {
                    break;
                }
            }
        } else {
            rt::task::idle().await;
        }
        // arm the patterns that start right after the handshake
        for (v, p) in victims.iter().zip(pats.iter()) {
            let v = v.as_ref().unwrap();
            match p {
                Pattern::AcceptThenStall(k) => {
                    v.conn.set_auto_drain(1, false);
                    v.conn.set_cap(1, *k);
                    if *k == 0 {
                        v.conn.set_stall(1, true);
                    }
                }
                Pattern::NeverDrain => {
                    v.conn.set_auto_drain(1, false);
                    v.conn.set_cap(1, 1);
                    rt::count("fault_never_drain");
                }
                _ => {}
            }
        }
        for i in 0..sizes.len() {
            for (vi, p) in pats.iter().enumerate() {
                match p {
                    Pattern::StallResume(a, _) if *a == i => victims[vi].as_ref().unwrap().conn.set_stall(1, true),
                    Pattern::StallResume(_, b) if *b == i => victims[vi].as_ref().unwrap().conn.set_stall(1, false),
                    Pattern::StallThenEndInbound(a, garbage) if *a == i => {
                        if let Some(v) = victims[vi].as_mut() {
                            v.conn.set_auto_drain(1, false);
                            v.conn.set_stall(1, true);
                            if *garbage {
                                let _ = v.send(&[0xf8, 1, b'x']).await;
                                rt::count("fault_subscriber_sent_garbage_while_stalled");
                            } else {
                                v.half_close();
                            }
                        }
                    }
                    Pattern::BrokenPipe(a) if *a == i => {
                        if let Some(v) = victims[vi].take() {
                            o2.borrow_mut().victim_taps.push((*p, v.inbound_raw(), 0));
                            v.close();
                        }
                    }
                    _ => {}
                }
            }
            let msg = payload(i, sizes[i]);
            o2.borrow_mut().published.push(msg.clone());
            if let Err(e) = sock.send(to_zmq(&msg)).await {
                o2.borrow_mut().viol.push(("publish_failed", format!("publish #{i} failed: {e}")));
                return world::park().await;
            }
            if i % 3 == 2 {
                rt::task::yield_now().await;
            }
        }
        // all sends completed while the stalls are still in force
        o2.borrow_mut().done = true;
        rt::task::idle().await;
        {
            let mut o = o2.borrow_mut();
            o.healthy_tap = healthy.inbound_raw();
            for (v, p) in victims.iter().zip(pats.iter()) {
                if let Some(v) = v {
                    let pend = v.conn.dir(1).write_pendings;
                    o.victim_taps.push((*p, v.inbound_raw(), pend));
                }
            }
        }
        world::park().await;
        drop(sock);
        drop(healthy);
        drop(victims);
    });
    let end = ctx.sim.run(600_000);
    if end == rt::RunEnd::Budget {
        ctx.violation("no_quiescence", format!("{} slow-subscriber world did not become quiescent", kind.name()));
    }
    let o = out.borrow();
    let had = !o.viol.is_empty();
    for (c, d) in o.viol.clone() {
        ctx.violation(c, d);
    }
    if !o.done && !had && end == rt::RunEnd::Quiescent {
        ctx.violation("publisher_blocked", format!("{}: a send never completed while subscribers with patterns {:?} were not accepting data: publishing waits for a subscriber", kind.name(), patterns));
    }
    if o.done && !had {
        // healthy subscriber: every message, in order, nothing else
        let w = oracle::check_library_stream(&o.healthy_tap, Some(kind.name()), Some(None));
        if let Some(p) = w.problems.first() {
            ctx.violation("healthy_stream_malformed", p.clone());
        }
        let got = w.parsed.messages();
        if got != o.published || w.parsed.partial != 0 {
            let idx = got.iter().zip(o.published.iter()).position(|(a, b)| a != b).unwrap_or(got.len().min(o.published.len()));
            ctx.violation("healthy_subscriber_missed_messages", format!("{}: the subscriber that accepts every write received {} of {} messages (first difference at #{idx}, trailing partial {} bytes) while victims {:?} were slow", kind.name(), got.len(), o.published.len(), w.parsed.partial, patterns));
        }
        // victims: well-formed prefix of an order-preserving subsequence
        for (p, tap, pend) in &o.victim_taps {
            let w = oracle::check_library_stream(tap, Some(kind.name()), Some(None));
            if let Some(pr) = w.problems.first() {
                ctx.violation("victim_stream_malformed", format!("pattern {p:?}: {pr}"));
                continue;
            }
            let got = w.parsed.messages();
            let mut next = 0usize;
            let mut ok = true;
            for g in &got {
                match o.published[next..].iter().position(|x| x == g) {
                    Some(k) => next += k + 1,
                    None => {
                        ok = false;
                        break;
                    }
                }
            }
            if !ok {
                ctx.violation("victim_stream_not_a_subsequence", format!("pattern {p:?}: the messages that reached the slow subscriber are not an order-preserving subsequence of what was published ({} messages received)", got.len()));
                continue;
            }
            if w.parsed.partial > 0 {
                // the trailing bytes must be a proper prefix of the encoding of a later message
                let tail = &tap[tap.len() - w.parsed.partial..];
                let fits = o.published[next..].iter().any(|m| rc::encode_msg(m).starts_with(tail));
                if !fits {
                    ctx.violation("victim_stream_torn", format!("pattern {p:?}: the stream to the slow subscriber ends with {} bytes that are not the beginning of any later message: a message was dropped part-way", w.parsed.partial));
                }
            }
            if got.len() < o.published.len() {
                ctx.probe("victim_missed_messages");
            }
            // a subscriber whose pipe never said Pending misses none (BrokenPipe victims excepted)
            if *pend == 0 && !matches!(p, Pattern::BrokenPipe(_) | Pattern::StallThenEndInbound(..)) && got.len() != o.published.len() {
                ctx.violation("accepting_subscriber_missed_messages", format!("pattern {p:?}: its pipe accepted every write, yet it received {} of {} messages", got.len(), o.published.len()));
            }
        }
        ctx.nontrivial();
    }
    if ctx.want_sample {
        ctx.out.sample = Some(format!("{} publishing sizes {:?} to 1 healthy subscriber and victims {:?}", kind.name(), sizes_s, patterns));
    }
    let _ = o.drops_possible;
    drop(o);
    ctx.check_panics();
}

/// memory bound: with a stalled subscriber, publishing M further messages must not grow the heap
/// with M (taps keep no content in this stratum so that harness memory stays out of the count)
fn memory_world(ctx: &mut Ctx) {
    let kind = if ctx.idx % 2 == 0 { Kind::Pub } else { Kind::Xpub };
    world::swarm(ctx, SwarmOpts { tiny_chunks: false, small_caps: false, allow_latency: false, ..Default::default() });
    let size = SIZES[ctx.plan(SIZES.len() as u64) as usize];
    let warm = 4usize;
    let more = 50 + ctx.plan(100) as usize;
    // what the subscriber's connection does after the warm-up: stays stalled; its write side breaks
    // (every write fails from then on) while the read side stays silent; or the subscriber closes
    // and the application keeps publishing without ever calling recv
    let variant = (ctx.idx / 2) % 3;
    let result: Rc<RefCell<Option<(isize, isize, bool)>>> = Rc::new(RefCell::new(None));
    let r2 = result.clone();
    rt::task::spawn_local("app", async move {
        let mut sock = AnySock::new(kind, None);
        let ep = sock.bind("tcp://127.0.0.1:0").await.expect("bind").to_string();
        let mut v = RawPeer::connect(&ep).expect("connect");
        v.hello("SUB", None).await.expect("hello");
        v.send_msg(&[vec![1]]).await.expect("subscribe");
        v.conn.set_io(1, |io| io.wyield_pm = 0);
        if kind == Kind::Xpub {
            while let Some(r) = rt::future::or_idle(sock.recv()).await {
                if r.is_err() {
                    break;
                }
            }
        } else {
            rt::task::idle().await;
        }
        v.conn.dir(1).record_tap = false;
        v.conn.set_auto_drain(1, false);
        v.conn.set_stall(1, true);
        let msg = to_zmq(&payload(0, size));
        for _ in 0..warm {
            if sock.send(msg.clone()).await.is_err() {
                return world::park().await;
            }
        }
        match variant {
            1 => {
                v.conn.inject_write_error(1, std::io::ErrorKind::BrokenPipe);
                rt::count("fault_write_error");
            }
            2 => {
                v.close();
                // the peer is gone; keep a handle-less placeholder so that the code below is uniform
                v = RawPeer::connect(&ep).expect("connect");
            }
            _ => {}
        }
        oracle::alloc_mark();
        for _ in 0..more {
            if sock.send(msg.clone()).await.is_err() {
                oracle::alloc_stop();
                return world::park().await;
            }
        }
        let (live, peak, _) = oracle::alloc_stats();
        oracle::alloc_stop();
        *r2.borrow_mut() = Some((live, peak, true));
        world::park().await;
        drop(sock);
        drop(v);
    });
    let end = ctx.sim.run(600_000);
    oracle::alloc_stop();
    if end == rt::RunEnd::Budget {
        ctx.violation("no_quiescence", "memory world did not become quiescent".into());
    }
    match *result.borrow() {
        Some((live, peak, _)) => {
            let bound = 2 * (131_072 + size as isize + 64) + 65_536;
            if live > bound {
                ctx.violation("memory_grows_with_stalled_subscriber", format!("{}: publishing {more} further messages of {size} bytes to a subscriber that {} grew the live heap by {live} bytes (peak {peak}); bound {bound} is independent of the number of messages", kind.name(), ["is stalled", "is stalled and whose connection then fails every write", "has closed its connection (the application never calls recv)"][variant as usize]));
            }
            ctx.nontrivial();
            ctx.probe("memory_bound_judged");
        }
        None => {
            if end == rt::RunEnd::Quiescent {
                ctx.violation("publisher_blocked", format!("{}: publishing to a stalled subscriber never completed", kind.name()));
            }
        }
    }
    if ctx.want_sample {
        ctx.out.sample = Some(format!("{}: {warm}+{more} messages of {size} bytes to one stalled subscriber; heap growth {:?}", kind.name(), result.borrow().map(|r| r.0)));
    }
    ctx.check_panics();
    let _ = from_zmq;
}

/// A subscriber stalls for a long time - a thousand-odd small messages are published meanwhile, far
/// fewer bytes than the high-water mark - then reads again and catches up. From then on its
/// connection accepts every write, so it misses nothing that is published afterwards; the
/// subscriber that never stalled misses nothing at all.
pub fn recovery(ctx: &mut Ctx) {
    let kind = if ctx.idx % 2 == 0 { Kind::Pub } else { Kind::Xpub };
    world::swarm(ctx, SwarmOpts { tiny_chunks: false, small_caps: false, allow_latency: false, ..Default::default() });
    let n = 1030 + ctx.plan(400) as usize;
    let len = ctx.plan_pick(&[0usize, 10, 40, 90]);
    let cap = ctx.plan_pick(&[300usize, 2_000, 9_000]);
    let tail = 3usize;
    let out: Rc<RefCell<Option<(Vec<u8>, Vec<u8>, usize)>>> = Rc::new(RefCell::new(None));
    let o2 = out.clone();
    rt::task::spawn_local("app", async move {
        let mut sock = AnySock::new(kind, None);
        let ep = sock.bind("tcp://127.0.0.1:0").await.expect("bind").to_string();
        let mut peers = Vec::new();
        for _ in 0..2 {
            let mut p = RawPeer::connect(&ep).expect("connect");
            p.hello("SUB", None).await.expect("hello");
            p.send_msg(&[vec![1]]).await.expect("subscribe");
            p.conn.set_io(1, |io| io.wyield_pm = 0);
            p.conn.set_cap(1, 1 << 40);
            peers.push(p);
        }
        if kind == Kind::Xpub {
            while let Some(Ok(_)) = rt::future::or_idle(sock.recv()).await {}
        } else {
            rt::task::idle().await;
        }
        // the second subscriber stops reading
        peers[1].conn.set_auto_drain(1, false);
        peers[1].conn.set_cap(1, cap);
        rt::count("fault_stall");
        for i in 0..n {
            if sock.send(to_zmq(&world::tagged(5, i as u32, &[len]))).await.is_err() {
                return world::park().await;
            }
        }
        // ... and reads again
        peers[1].conn.set_cap(1, 1 << 40);
        peers[1].conn.set_auto_drain(1, true);
        rt::task::idle().await;
        for i in n..n + tail {
            if sock.send(to_zmq(&world::tagged(5, i as u32, &[len]))).await.is_err() {
                return world::park().await;
            }
            rt::task::idle().await;
        }
        rt::task::idle().await;
        *o2.borrow_mut() = Some((peers[0].inbound_raw(), peers[1].inbound_raw(), n + tail));
        world::park().await;
        drop(sock);
        drop(peers);
    });
    let end = ctx.sim.run(2_000_000);
    if end == rt::RunEnd::Budget {
        ctx.violation("no_quiescence", format!("{}: publishing to a subscriber that stalls and recovers: no quiescence", kind.name()));
    }
    ctx.check_panics();
    let o = out.borrow();
    match &*o {
        Some((healthy, victim, total)) => {
            let seqs = |tap: &[u8]| -> (Vec<u32>, Option<String>) {
                let p = rc::parse_stream(tap);
                let v: Vec<u32> = p.messages().iter().filter_map(|m| world::tag_of(m)).filter(|t| t.0 == 5).map(|t| t.1).collect();
                (v, p.error.as_ref().map(|e| format!("{e:?}")).or(if p.partial > 0 { Some(format!("{} bytes of an incomplete message at the end", p.partial)) } else { None }))
            };
            let (h, herr) = seqs(healthy);
            let (v, verr) = seqs(victim);
            if h != (0..*total as u32).collect::<Vec<u32>>() || herr.is_some() {
                ctx.violation("healthy_subscriber_missed_messages", format!("{}: the subscriber that accepts every write received {} of {total} messages ({:?}) while another one stalled and recovered", kind.name(), h.len(), herr));
            }
            if verr.is_some() {
                ctx.violation("victim_stream_torn", format!("{}: the stream to the subscriber that stalled and recovered is not a sequence of complete messages: {:?}", kind.name(), verr));
            }
            if v.windows(2).any(|w| w[0] >= w[1]) {
                ctx.violation("victim_stream_not_a_subsequence", format!("{}: what reached the subscriber that stalled and recovered is not an order-preserving subsequence of what was published", kind.name()));
            }
            if v.last() != Some(&(*total as u32 - 1)) {
                ctx.violation("recovered_subscriber_starved", format!("{}: a subscriber stalled while {n} messages of {len}+8 bytes were published (its connection accepted {cap} bytes), then read again and caught up; of the {tail} messages published after that, one at a time with the world quiet in between, the last one never reached it (it has {} messages, the last is #{:?})", kind.name(), v.len(), v.last()));
            }
            ctx.nontrivial();
            ctx.probe_n("messages_published_during_the_stall", n as u64);
        }
        None => {
            if end == rt::RunEnd::Quiescent && ctx.sim.rt.panics.borrow().is_empty() {
                ctx.violation("publisher_blocked", format!("{}: publishing to a subscriber that stalls and recovers never completed", kind.name()));
            }
        }
    }
    if ctx.want_sample {
        ctx.out.sample = Some(format!("{}: {n} messages of {len}+8 bytes published while one of two subscribers accepts {cap} bytes; it then recovers", kind.name()));
    }
}

pub fn def() -> PropDef {
    PropDef {
        id: "C12",
        level: "fault_enumeration",
        rule: "slow_world: case index walks socket kind (PUB/XPUB) x stall pattern of the first victim {accept k bytes then stall (k around the 128 KiB mark), stall/resume between messages a and b, never drain, broken pipe after message a, co-operative yields}; message sizes drawn from a grid around 128 KiB; in half of the runs every subscriber holds several subscriptions that all match; one healthy subscriber; memory_world: one subscriber that stalls / stalls and then fails every write / closes while the application never calls recv, 50..149 further messages, heap growth measured by a counting allocator; non-trivial = the run reached its judgement; distinct = distinct (plan, schedule, transport) hashes",
        assumptions: &["'accepts every write' = the subscriber's pipe never answers Pending to a write (short writes allowed)", "memory bound asserted: 2 x (128 KiB + message size) + 64 KiB of live heap growth, independent of the number of messages published"],
        strata: vec![
            Stratum { name: "slow_world", quick: 30_000, thorough: (300_000) * 4, exhaustive: (false, false), run: slow_world, what: "publisher completion, healthy subscriber complete, victim stream = prefix of an ordered subsequence" },
            Stratum { name: "recovery", quick: 600, thorough: 40_000, exhaustive: (false, false), run: recovery, what: "a subscriber stalls while 1030..1430 small messages are published, then catches up: it gets what is published afterwards; the other subscriber misses nothing" },
            Stratum { name: "memory_world", quick: 4_000, thorough: (40_000) * 4, exhaustive: (false, false), run: memory_world, what: "heap growth while publishing to a stalled subscriber" },
        ],
    }
}
