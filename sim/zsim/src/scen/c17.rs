//! C17 — closing or dropping a socket stops its listeners and disconnects all peers.
use crate::fw::{Ctx, PropDef, Stratum};
use crate::socks::{AnySock, Kind, ALL_KINDS};
use crate::world::{self, ep_key, from_zmq, tagged, to_zmq, RawListener, RawPeer, SwarmOpts};
use std::cell::RefCell;
use std::rc::Rc;
use std::sync::Arc;
use zmq_simrt as rt;

const TRANSPORTS: [&str; 4] = ["tcp://127.0.0.1:0", "tcp://[::1]:0", "tcp://localhost:0", "ipc"];
const PREFIXES: [&str; 6] = ["bound_only", "accepted_peers", "connected_out", "mid_traffic", "receiver_parked", "handshake_pending"];

#[derive(Default)]
struct Out {
    done: bool,
    endpoints: Vec<String>,
    conns: Vec<(Arc<rt::net::Conn>, usize, &'static str)>, // (conn, library side, role)
    close_errors: usize,
    keep: Vec<RawPeer>,
    keepl: Vec<RawListener>,
    refused_after: Vec<(String, bool)>,
    ipc_paths: Vec<String>,
    late_listener_at: Option<String>,
    ghost_connection: bool,
}

fn lifecycle(ctx: &mut Ctx) {
    let kind = ALL_KINDS[(ctx.idx % 9) as usize];
    let tr = ((ctx.idx / 9) % 4) as usize;
    let prefix = ((ctx.idx / 36) % 6) as usize;
    let use_close = (ctx.idx / 216) % 2 == 0;
    let cell = ctx.idx % 432;
    if ctx.idx < 432 {
        world::plain(ctx);
    } else {
        world::swarm(ctx, SwarmOpts::default());
    }
    let unlink_kind = [std::io::ErrorKind::PermissionDenied, std::io::ErrorKind::NotFound, std::io::ErrorKind::Other][(ctx.idx % 3) as usize];
    let fail_unlink = tr == 3 && use_close && ctx.idx >= 432 && ctx.plan(4) == 0;
    // beyond the undisturbed grid, one case in three binds a second endpoint on another transport
    let second_bind = ctx.idx >= 432 && !fail_unlink && ctx.plan(3) == 0;
    let npeers = 1 + ctx.plan(2) as usize;
    let out = Rc::new(RefCell::new(Out::default()));
    let o2 = out.clone();
    let peer_type = kind.peers()[0];
    let idx = ctx.idx;
    // beyond the undisturbed grid: a monitor may be installed (its receiver kept by the application
    // for the whole run, or dropped at once), and a SUB socket may have a subscription
    let mon_mode = if ctx.idx >= 432 { ctx.plan(3) } else { 0 };
    let subscribed = ctx.idx >= 432 && kind == Kind::Sub && ctx.plan_bool();
    let crowd = if ctx.idx >= 432 && prefix == 5 && ctx.plan(6) == 0 { 120 + ctx.plan(60) as usize } else { 0 };
    // a SUB socket with a large subscription set admits peers that finish the handshake and then
    // stop reading: at teardown the replay of the subscriptions to them is still blocked in a write
    let replay_blocked = ctx.idx >= 432 && kind == Kind::Sub && matches!(prefix, 1 | 3 | 4) && ctx.plan(3) == 0;
    // some time before the teardown an accept() call on each bound endpoint failed (descriptor
    // shortage, an aborted connection, a signal): long over, and no reason to leave anything behind
    let accept_fault: Option<std::io::ErrorKind> = if ctx.idx >= 432 && !fail_unlink && ctx.plan(4) == 0 { Some([std::io::ErrorKind::Other, std::io::ErrorKind::ConnectionAborted, std::io::ErrorKind::OutOfMemory, std::io::ErrorKind::Interrupted][ctx.plan(4) as usize]) } else { None };
    // 'connected_out' histories beyond the grid: the connect call may be abandoned by its caller
    // before it completes (a timeout, select!) - against a listener that accepts and then says
    // nothing (1), or against a port where nobody listens yet, so that the call is in its retry
    // loop (2). Whatever the call had started must go with the socket.
    let abandon_connect = if ctx.idx >= 432 && prefix == 2 { ctx.plan(3) } else { 0 };
    let backlog = ctx.idx >= 432 && matches!(kind, Kind::Pub | Kind::Xpub) && matches!(prefix, 1 | 3) && ctx.plan_bool();
    rt::task::spawn_local("app", async move {
        let mut sock = AnySock::new(kind, None);
        let _monitor = match mon_mode {
            1 => Some(sock.monitor()),
            2 => {
                drop(sock.monitor());
                None
            }
            _ => None,
        };
        if subscribed {
            let _ = sock.subscribe("").await;
        }
        if replay_blocked {
            for t in 0..3u8 {
                let topic: String = std::iter::repeat((b'a' + t) as char).take(60_000).collect();
                let _ = sock.subscribe(&topic).await;
            }
            rt::count("probe_teardown_while_subscription_replay_is_blocked");
        }
        let bind_to = if tr == 3 { format!("ipc:///tmp/zsim-{idx}.sock") } else { TRANSPORTS[tr].to_string() };
        if tr == 3 {
            o2.borrow_mut().ipc_paths.push(format!("/tmp/zsim-{idx}.sock"));
        }
        let ep = match sock.bind(&bind_to).await {
            Ok(e) => e.to_string(),
            Err(_) => return world::park().await,
        };
        o2.borrow_mut().endpoints.push(ep.clone());
        if second_bind {
            let other = if tr == 3 { "tcp://127.0.0.1:0".to_string() } else { format!("ipc:///tmp/zsim-{idx}-b.sock") };
            if let Ok(e) = sock.bind(&other).await {
                if tr != 3 {
                    o2.borrow_mut().ipc_paths.push(format!("/tmp/zsim-{idx}-b.sock"));
                }
                // a peer on the second endpoint as well, where the history has peers at all
                let e = e.to_string();
                if matches!(prefix, 1 | 3 | 4) {
                    if let Ok(mut peer) = RawPeer::connect(&e) {
                        let _ = peer.hello(peer_type, Some(b"second")).await;
                        if matches!(kind, Kind::Pub | Kind::Xpub) {
                            let _ = peer.send_msg(&[vec![1]]).await;
                        }
                        o2.borrow_mut().conns.push((peer.conn.clone(), 1, "accepted"));
                        o2.borrow_mut().keep.push(peer);
                    }
                }
                o2.borrow_mut().endpoints.push(e);
                rt::count("probe_second_endpoint_bound");
            }
        }
        let mut peers: Vec<RawPeer> = Vec::new();
        if matches!(prefix, 1 | 3 | 4) {
            for p in 0..npeers {
                let Ok(mut peer) = RawPeer::connect(&ep) else { continue };
                if replay_blocked {
                    peer.conn.set_auto_drain(1, false);
                    peer.conn.set_cap(1, 4096);
                }
                let _ = peer.hello(peer_type, Some(format!("p{p}").as_bytes())).await;
                if matches!(kind, Kind::Pub | Kind::Xpub) {
                    let _ = peer.send_msg(&[vec![1]]).await;
                }
                o2.borrow_mut().conns.push((peer.conn.clone(), 1, "accepted"));
                peers.push(peer);
            }
            rt::task::idle().await;
        }
        if prefix == 2 && abandon_connect == 1 {
            if let Ok((l, lep)) = RawListener::bind("tcp://127.0.0.1:0") {
                let o3 = o2.clone();
                rt::task::spawn_local("silent-acceptor", async move {
                    if let Ok(p) = l.accept().await {
                        o3.borrow_mut().conns.push((p.conn.clone(), 0, "connect_abandoned"));
                        o3.borrow_mut().keep.push(p);
                    }
                    o3.borrow_mut().keepl.push(l);
                });
                // given up once the world is quiet: the handshake never completes
                let _ = rt::future::or_idle(sock.connect(&lep)).await;
                rt::count("probe_connect_abandoned_in_its_handshake");
            }
        } else if prefix == 2 && abandon_connect == 2 {
            // nobody listens on that port: the call retries; it is given up after a few polls
            let _ = rt::future::poll_budget(sock.connect("tcp://127.0.0.1:23917"), 3).await;
            o2.borrow_mut().late_listener_at = Some("tcp://127.0.0.1:23917".to_string());
            rt::count("probe_connect_abandoned_in_its_retry_loop");
        } else if prefix == 2 {
            if let Ok((l, lep)) = RawListener::bind("tcp://127.0.0.1:0") {
                let o3 = o2.clone();
                let acc = rt::task::spawn_local("acceptor", async move {
                    if let Ok(mut p) = l.accept().await {
                        let _ = p.hello(peer_type, None).await;
                        o3.borrow_mut().conns.push((p.conn.clone(), 0, "connected_out"));
                        o3.borrow_mut().keep.push(p);
                    }
                    o3.borrow_mut().keepl.push(l);
                });
                let _ = sock.connect(&lep).await;
                let _ = acc.await;
            }
        }
        if backlog {
            // every subscriber stops reading and large messages are published: at teardown the
            // socket holds unflushed data for several peers, some of which will never read again
            for peer in peers.iter() {
                peer.conn.set_auto_drain(1, false);
                peer.conn.set_cap(1, 4096);
            }
            for n in 0..3u32 {
                let _ = sock.send(to_zmq(&tagged(8, n, &[100_000]))).await;
            }
            rt::count("probe_teardown_with_backlogged_subscribers");
        }
        if prefix == 3 {
            // some traffic in whatever direction the type allows
            for (p, peer) in peers.iter_mut().enumerate() {
                if kind.has_recv() && kind != Kind::Req {
                    let mut m = if kind == Kind::Rep { vec![vec![]] } else { vec![] };
                    m.extend(tagged(p as u16, 0, &[10]));
                    let _ = peer.send_msg(&m).await;
                }
            }
            if kind.has_recv() && kind != Kind::Req {
                while let Some(r) = rt::future::or_idle(sock.recv()).await {
                    if let (Ok(m), Kind::Rep) = (&r, kind) {
                        let _ = from_zmq(m);
                        let _ = sock.send(to_zmq(&[b"r".to_vec()])).await;
                    }
                    if r.is_err() {
                        break;
                    }
                }
            } else if kind.has_send() {
                let _ = sock.send(to_zmq(&tagged(9, 0, &[10]))).await;
                if kind == Kind::Req {
                    for peer in peers.iter_mut() {
                        let _ = peer.send_msg(&[vec![], b"ok".to_vec()]).await;
                    }
                    let _ = rt::future::or_idle(sock.recv()).await;
                }
            }
        }
        if prefix == 4 && kind.has_recv() && kind != Kind::Req {
            // the receiver parks at least once: recv polled to Pending, then abandoned
            let _ = rt::future::or_idle(sock.recv()).await;
            rt::count("probe_receiver_parked_before_teardown");
        }
        if prefix == 5 && crowd > 0 {
            // a crowd of connections stuck in their handshakes at the moment of teardown
            for n in 0..crowd {
                if let Ok(mut peer) = RawPeer::connect(&ep) {
                    if n % 3 == 1 {
                        let _ = peer.send(&crate::refcodec::greeting_default()[..10]).await;
                    }
                    o2.borrow_mut().conns.push((peer.conn.clone(), 1, "handshake_pending"));
                    peers.push(peer);
                }
            }
            rt::count("probe_teardown_with_a_crowd_of_pending_handshakes");
        }
        if prefix == 5 {
            // a peer that connects and stays silent (or sends half a greeting)
            if let Ok(mut peer) = RawPeer::connect(&ep) {
                if npeers == 2 {
                    let _ = peer.send(&crate::refcodec::greeting_default()[..20]).await;
                }
                o2.borrow_mut().conns.push((peer.conn.clone(), 1, "handshake_pending"));
                peers.push(peer);
            }
            rt::task::idle().await;
        }
        if let Some(kind) = accept_fault {
            let eps = o2.borrow().endpoints.clone();
            for e in eps {
                if rt::rt().net.borrow().inject_accept_error(&ep_key(&e), kind) {
                    rt::count("fault_accept_error");
                }
            }
            rt::task::idle().await;
        }
        if fail_unlink {
            // the removal is refused, finds the file gone (a renamed directory), or fails otherwise
            rt::rt().net.borrow_mut().fail_remove_kind = unlink_kind;
            rt::rt().net.borrow_mut().fail_remove_file = 1;
        }
        // ---- teardown ---------------------------------------------------------------------------
        if use_close {
            let errs = sock.close().await;
            o2.borrow_mut().close_errors = errs.len();
            // "after close() returns": judged right here for the listeners
            let eps = o2.borrow().endpoints.clone();
            for e in eps {
                let refused = RawPeer::connect(&e).is_err();
                o2.borrow_mut().refused_after.push((e, refused));
            }
        } else {
            drop(sock);
        }
        rt::task::idle().await;
        if !use_close {
            let eps = o2.borrow().endpoints.clone();
            for e in eps {
                let refused = RawPeer::connect(&e).is_err();
                o2.borrow_mut().refused_after.push((e, refused));
            }
        }
        // a listener that appears, after the socket is gone, where an abandoned connect had been
        // retrying: nobody may connect to it
        let late = o2.borrow().late_listener_at.clone();
        if let Some(lep) = late {
            if let Ok((l, _)) = RawListener::bind(&lep) {
                rt::task::sleep(std::time::Duration::from_secs(30)).await;
                rt::task::idle().await;
                if let Some(Ok(p)) = rt::future::or_idle(l.accept()).await {
                    o2.borrow_mut().ghost_connection = true;
                    o2.borrow_mut().keep.push(p);
                }
                o2.borrow_mut().keepl.push(l);
            }
        }
        o2.borrow_mut().done = true;
        world::park().await;
        drop(peers);
    });
    let end = ctx.sim.run(400_000);
    let how = if use_close { "close" } else { "drop" };
    let tag = format!("{} on {} with history '{}', then {how}", kind.name(), if tr == 3 { "ipc" } else { TRANSPORTS[tr] }, PREFIXES[prefix]);
    if end == rt::RunEnd::Budget {
        ctx.violation(&format!("no_quiescence:{}:{how}", PREFIXES[prefix]), format!("{tag}: no quiescence"));
    }
    ctx.check_panics();
    let o = out.borrow();
    if o.done {
        let key = |c: &str| format!("{c}:{}:{how}", PREFIXES[prefix]);
        for (e, refused) in &o.refused_after {
            if !*refused {
                ctx.violation(&key("endpoint_still_accepts"), format!("{tag}: a fresh connection to {e} was accepted after the socket was {}", if use_close { "closed" } else { "dropped and the world settled" }));
            }
            if ctx.sim.rt.net.borrow().listening(&ep_key(e)) {
                ctx.violation(&key("listener_still_registered"), format!("{tag}: the listener for {e} still exists"));
            }
        }
        for p in &o.ipc_paths {
            let exists = ctx.sim.rt.net.borrow().file_exists(std::path::Path::new(p));
            if exists && !fail_unlink {
                ctx.violation(&key("ipc_file_not_removed"), format!("{tag}: the socket file {p} still exists"));
            }
            if fail_unlink && use_close && o.close_errors == 0 {
                ctx.violation("close_swallowed_unlink_failure", format!("{tag}: removing the socket file failed but close() reported no error"));
            }
        }
        // (with an accept() failure in the history, close() may or may not mention it)
        if !fail_unlink && accept_fault.is_none() && o.close_errors > 0 {
            ctx.violation(&key("close_reported_spurious_error"), format!("{tag}: close() returned {} errors although nothing failed", o.close_errors));
        }
        if o.ghost_connection {
            ctx.violation(&key("connects_after_teardown"), format!("{tag}: a connect call had been retrying against a port nobody listened on and was abandoned by its caller; after the socket was {} a listener appeared there and the socket connected to it", if use_close { "closed" } else { "dropped" }));
        }
        for (c, side, role) in &o.conns {
            if !c.released(*side) {
                ctx.violation(&format!("peer_not_disconnected:{}:{}:{how}", role, kind.name()), format!("{tag}: a peer ({role}) never observed end-of-stream: the socket's side of its connection is still open at quiescence"));
            }
        }
        let live = ctx.sim.live_library_tasks();
        if !live.is_empty() {
            let names: Vec<String> = live.iter().map(|n| n.rsplit('/').next().unwrap_or(n).to_string()).collect();
            ctx.violation(&format!("background_tasks_alive:{}:{how}", PREFIXES[prefix]), format!("{tag}: {} background task(s) of the socket are still alive at quiescence: {:?}", live.len(), names));
        }
        ctx.nontrivial();
    } else if end == rt::RunEnd::Quiescent && ctx.sim.rt.panics.borrow().is_empty() {
        ctx.violation(&format!("teardown_never_completed:{}:{how}", PREFIXES[prefix]), format!("{tag}: the scenario never completed (close() did not return?)"));
    }
    ctx.out.extra_shape = cell;
    if ctx.want_sample {
        ctx.out.sample = Some(tag);
    }
}

pub fn def() -> PropDef {
    PropDef {
        id: "C17",
        level: "fault_enumeration",
        rule: "the case index enumerates the grid socket type (9) x transport {tcp v4, tcp v6, tcp localhost, ipc} x history prefix {bound only, bound + accepted peers, connected out, mid-traffic, receiver has parked once, handshake pending} x {close().await, drop} = 432 cells, first undisturbed, then repeatedly under drawn transport/schedule (an injected unlink failure for some ipc/close cells; a second bound endpoint on another transport, with its own peer, in one case in three; a monitor installed and kept or dropped; a subscription on SUB; a crowd of 120..180 connections stuck in their handshakes at teardown; PUB/XPUB torn down while it holds unflushed data for subscribers that have stopped reading); judged in the simulated network and file namespaces: listeners gone and fresh connects refused (at close() return, resp. at quiescence after drop), socket file removed, every peer connection closed by the socket, no library-spawned task alive; distinct = distinct (cell, plan, schedule, transport)",
        assumptions: &["TCP ports and IPC files are those of the simulator's namespaces, reached through the real transport/tcp.rs, transport/ipc.rs, lib.rs and task_handle.rs code; the kernel and the tokio-gated glue lines are not exercised", "'shortly afterwards' for drop = by the time the simulation is quiescent"],
        strata: vec![Stratum { name: "lifecycle", quick: 432 * 80, thorough: (432 * 1200) * 20, exhaustive: (true, true), run: lifecycle, what: "432-cell grid of socket type x transport x history x close/drop" }],
    }
}
