//! C13 — a SUB socket's subscriptions reach every peer, including late joiners.
use crate::fw::{Ctx, PropDef, Stratum};
use crate::refcodec as rc;
use crate::world::{self, RawListener, RawPeer, SwarmOpts};
use std::cell::RefCell;
use std::collections::{BTreeMap, BTreeSet};
use std::rc::Rc;
use zeromq::prelude::*;
use zeromq::*;
use zmq_simrt as rt;

const TOPICS: [&str; 4] = ["", "a", "ab", "b"];

#[derive(Clone, Debug, PartialEq)]
enum Step {
    Subscribe(usize),
    Unsubscribe(usize),
    /// a scripted publisher connects to the bound SUB socket (handshake runs concurrently with
    /// the following steps)
    JoinByAccept(usize),
    /// the SUB socket connects out to a scripted publisher's listener (sequential by &mut self)
    JoinByConnect(usize),
    /// the connection of publisher p fails: 0 = orderly close, 1 = reset, 2 = write error
    Fail(usize, u8),
    /// the accepted publisher p (it announced the identity "pub<p>") closes its connection and
    /// at once connects again under the same identity; the application is not in recv, so the socket
    /// still holds the old connection when the new one is admitted
    Rejoin(usize),
    /// publisher p stops reading (only a few hundred more bytes are accepted) until the world is
    /// next quiescent; calls made meanwhile wait for it or queue behind it - either way, once it
    /// reads again it must end up knowing everything
    StallUntilIdle(usize),
    /// let the world settle
    Quiesce,
}

/// fold a publisher's inbound stream into topic counts (DESIGN B5)
fn fold(tap: &[u8]) -> BTreeMap<Vec<u8>, i64> {
    let mut m: BTreeMap<Vec<u8>, i64> = BTreeMap::new();
    for msg in rc::parse_stream(tap).messages() {
        if msg.len() != 1 || msg[0].is_empty() {
            continue;
        }
        let t = msg[0][1..].to_vec();
        match msg[0][0] {
            1 => *m.entry(t).or_insert(0) += 1,
            0 => {
                let e = m.entry(t).or_insert(0);
                if *e > 0 {
                    *e -= 1;
                }
            }
            _ => {}
        }
    }
    m
}
fn support(m: &BTreeMap<Vec<u8>, i64>) -> BTreeSet<String> {
    m.iter().filter(|(_, c)| **c > 0).map(|(t, _)| String::from_utf8_lossy(t).to_string()).collect()
}

struct Out {
    viol: Vec<(&'static str, String)>,
    done: bool,
    peers: Vec<Option<RawPeer>>,
    failed: Vec<bool>,
    call_errors: u32,
    kept: Vec<RawPeer>,
    /// first connections of publishers that rejoined without closing them (two live connections
    /// under one identity)
    twins: Vec<(usize, RawPeer)>,
}

fn run_world(ctx: &mut Ctx, steps: Vec<Step>, npeers: usize) {
    run_world_x(ctx, steps, npeers, false)
}
/// `in_flight`: the history contains a Rejoin that is not preceded by a quiescent point (the old
/// connection's handshake may still be running when the new one arrives): every view clause is then
/// reported under one key, which is the open finding 11.5 in its SUB form
fn run_world_x(ctx: &mut Ctx, steps: Vec<Step>, npeers: usize, in_flight: bool) {
    // the application does other things between its calls: 0..3 co-operative yields after each
    // step let background handshakes advance into the middle of the history
    let gaps: Vec<u32> = steps.iter().map(|_| ctx.plan(4) as u32).collect();
    let closes_first = ctx.plan(3) != 0;
    let out = Rc::new(RefCell::new(Out { viol: vec![], done: false, peers: (0..npeers).map(|_| None).collect(), failed: vec![false; npeers], call_errors: 0, kept: Vec::new(), twins: Vec::new() }));
    let o2 = out.clone();
    let steps2 = steps.clone();
    rt::task::spawn_local("app", async move {
        let mut sub = SubSocket::new();
        let ep = sub.bind("tcp://127.0.0.1:0").await.expect("bind").to_string();
        for (step_no, st) in steps2.iter().enumerate() {
            match st {
                Step::Subscribe(t) => {
                    if sub.subscribe(TOPICS[*t]).await.is_err() {
                        o2.borrow_mut().call_errors += 1;
                    }
                }
                Step::Unsubscribe(t) => {
                    if sub.unsubscribe(TOPICS[*t]).await.is_err() {
                        o2.borrow_mut().call_errors += 1;
                    }
                }
                Step::JoinByAccept(p) => {
                    let Ok(mut peer) = RawPeer::connect(&ep) else { continue };
                    if peer.hello("PUB", Some(format!("pub{p}").as_bytes())).await.is_ok() {
                        o2.borrow_mut().peers[*p] = Some(peer);
                    }
                }
                Step::Rejoin(p) => {
                    let old = o2.borrow_mut().peers[*p].take();
                    let Some(old) = old else { continue };
                    if closes_first {
                        old.close();
                    } else {
                        o2.borrow_mut().twins.push((*p, old));
                    }
                    rt::count("probe_publisher_rejoined_under_its_identity");
                    let Ok(mut peer) = RawPeer::connect(&ep) else { continue };
                    if peer.hello("PUB", Some(format!("pub{p}").as_bytes())).await.is_ok() {
                        o2.borrow_mut().peers[*p] = Some(peer);
                    }
                }
                Step::JoinByConnect(p) => {
                    let Ok((l, lep)) = RawListener::bind("tcp://127.0.0.1:0") else { continue };
                    let o3 = o2.clone();
                    let p = *p;
                    let acc = rt::task::spawn_local("pub-listener", async move {
                        if let Ok(mut peer) = l.accept().await {
                            if peer.hello("XPUB", None).await.is_ok() {
                                o3.borrow_mut().peers[p] = Some(peer);
                            }
                        }
                    });
                    let _ = sub.connect(&lep).await;
                    let _ = acc.await;
                }
                Step::Fail(p, how) => {
                    let peer = o2.borrow_mut().peers[*p].take();
                    if let Some(peer) = peer {
                        o2.borrow_mut().failed[*p] = true;
                        match how {
                            0 => peer.close(),
                            1 => {
                                peer.reset();
                                drop(peer);
                            }
                            _ => {
                                peer.conn.inject_write_error(1 - peer.side, std::io::ErrorKind::ConnectionAborted);
                                // keep the stream object alive but out of the judged set
                                o2.borrow_mut().kept.push(peer);
                            }
                        }
                    }
                }
                Step::StallUntilIdle(p) => {
                    let conn = o2.borrow().peers[*p].as_ref().map(|x| (x.conn.clone(), 1 - x.side));
                    if let Some((c, lib_side)) = conn {
                        c.set_auto_drain(lib_side, false);
                        c.set_cap(lib_side, 300);
                        rt::count("fault_stall");
                        rt::task::spawn_local("resumer", async move {
                            rt::task::idle().await;
                            c.set_cap(lib_side, 1 << 40);
                            c.set_auto_drain(lib_side, true);
                        });
                    }
                }
                Step::Quiesce => rt::task::idle().await,
            }
            for _ in 0..gaps[step_no] {
                rt::task::yield_now().await;
            }
        }
        rt::task::idle().await;
        o2.borrow_mut().done = true;
        world::park().await;
        drop(sub);
    });
    let end = ctx.sim.run(400_000);
    if end == rt::RunEnd::Budget {
        ctx.violation("no_quiescence", "SUB world did not become quiescent".into());
    }
    // reference model of the socket's subscription set, and whether the history ever subscribes a
    // topic that is already subscribed (then only agreement is required)
    let mut model: BTreeSet<String> = BTreeSet::new();
    let mut dup = false;
    for s in &steps {
        match s {
            Step::Subscribe(t) => {
                if !model.insert(TOPICS[*t].to_string()) {
                    dup = true;
                }
            }
            Step::Unsubscribe(t) => {
                model.remove(TOPICS[*t]);
            }
            _ => {}
        }
    }
    let o = out.borrow();
    for (c, d) in o.viol.clone() {
        ctx.violation(c, d);
    }
    if !o.done && end == rt::RunEnd::Quiescent {
        ctx.violation("stuck", "a subscribe/unsubscribe/connect call never completed".into());
    }
    if o.done {
        let mut views: Vec<(usize, BTreeSet<String>)> = Vec::new();
        for (i, p) in o.peers.iter().enumerate() {
            if let Some(p) = p {
                // only peers the socket finished admitting count as connected
                let lib = rc::parse_stream(&p.inbound_raw());
                if lib.items.len() < 2 {
                    continue;
                }
                views.push((i, support(&fold(&p.inbound_raw()))));
            }
        }
        for w in views.windows(2) {
            if w[0].1 != w[1].1 {
                let any_failed = o.failed.iter().any(|f| *f);
                let clause = if in_flight { "view_wrong_when_rejoin_overlaps_handshake" } else if any_failed { "peers_disagree_after_one_peer_failed" } else if dup { "peers_disagree_after_duplicate_subscribe" } else { "peers_disagree" };
                ctx.violation(clause, format!("publishers {} and {} disagree about the subscriptions at quiescence: {:?} vs {:?}; history {:?}", w[0].0, w[1].0, w[0].1, w[1].1, steps));
                break;
            }
        }
        if !dup {
            for (i, v) in &views {
                if *v != model {
                    let any_failed = o.failed.iter().any(|f| *f);
                    let clause = if in_flight { "view_wrong_when_rejoin_overlaps_handshake" } else if any_failed { "peer_view_wrong_after_one_peer_failed" } else { "peer_view_differs_from_socket" };
                    ctx.violation(clause, format!("publisher {i} believes the subscriptions are {:?} but the socket's set is {:?}; history {:?}", v, model, steps));
                    break;
                }
            }
        }
        // a first connection that its publisher left open when it joined again under the same
        // identity: the socket may drop it (it does), but if it still holds it at quiescence that
        // publisher is a connected peer like any other and must know the socket's set
        if !dup && !in_flight {
            for (i, p) in &o.twins {
                if !p.library_released() && rc::parse_stream(&p.inbound_raw()).items.len() >= 2 {
                    let v = support(&fold(&p.inbound_raw()));
                    if v != model {
                        ctx.violation("connected_twin_not_told", format!("publisher {i} joined a second time under its identity without closing its first connection; the socket still holds the first connection at quiescence, and on it the publisher believes the subscriptions are {:?} while the socket's set is {:?}; history {:?}", v, model, steps));
                        break;
                    }
                    ctx.probe("twin_connection_still_held_and_judged");
                }
            }
        }
        if views.len() >= 2 {
            ctx.nontrivial();
        }
        ctx.probe_n("publishers_judged", views.len() as u64);
    }
    if o.call_errors > 0 {
        ctx.probe("subscribe_call_returned_error");
    }
    if ctx.want_sample {
        ctx.out.sample = Some(format!("SUB history {:?}", steps));
    }
    drop(o);
    ctx.check_panics();
}

fn draw_history(ctx: &mut Ctx, with_fail: bool, with_dup: bool) -> (Vec<Step>, usize) {
    let npeers = 1 + ctx.plan(3) as usize;
    let nops = 1 + ctx.plan(6) as usize;
    let mut steps = Vec::new();
    let mut joined = 0usize;
    let mut subscribed: BTreeSet<usize> = BTreeSet::new();
    let mut failed_one = false;
    for _ in 0..nops + npeers {
        let c = ctx.plan(10);
        match c {
            0..=3 => {
                let t = ctx.plan(4) as usize;
                if !with_dup && subscribed.contains(&t) {
                    steps.push(Step::Unsubscribe(t));
                    subscribed.remove(&t);
                } else {
                    steps.push(Step::Subscribe(t));
                    subscribed.insert(t);
                }
            }
            4..=5 => {
                let t = ctx.plan(4) as usize;
                steps.push(Step::Unsubscribe(t));
                subscribed.remove(&t);
            }
            6..=7 if joined < npeers => {
                steps.push(if ctx.plan(3) == 0 { Step::JoinByConnect(joined) } else { Step::JoinByAccept(joined) });
                joined += 1;
            }
            8 if with_fail && !failed_one && joined > 0 => {
                steps.push(Step::Quiesce);
                steps.push(Step::Fail(ctx.plan(joined as u64) as usize, ctx.plan(3) as u8));
                failed_one = true;
            }
            _ => steps.push(Step::Quiesce),
        }
    }
    while joined < npeers {
        steps.push(Step::JoinByAccept(joined));
        joined += 1;
    }
    (steps, npeers)
}

/// a publisher with an announced identity leaves and comes back (or a second connection under its
/// identity appears while the first is still open) in the middle of a history: the connection that
/// is live afterwards must be told every later change, like everybody else
fn rejoin(ctx: &mut Ctx) {
    rejoin_x(ctx, false)
}
/// the same, but the rejoin may come while the first connection's handshake is still in flight
fn rejoin_in_flight(ctx: &mut Ctx) {
    rejoin_x(ctx, true)
}
fn rejoin_x(ctx: &mut Ctx, in_flight: bool) {
    world::swarm(ctx, SwarmOpts::default());
    let (base, n) = draw_history(ctx, false, false);
    let mut steps = Vec::new();
    let mut accepted: Vec<usize> = Vec::new();
    let mut done = false;
    for st in base {
        if let Step::JoinByAccept(p) = &st {
            accepted.push(*p);
        }
        let is_call = matches!(st, Step::Subscribe(_) | Step::Unsubscribe(_));
        if is_call && !done && !accepted.is_empty() && ctx.plan(3) == 0 {
            // the first connection is fully admitted before it is replaced (the other order is the
            // open finding 11.5, kept apart in rejoin_in_flight)
            if !in_flight || ctx.plan_bool() {
                steps.push(Step::Quiesce);
            }
            steps.push(Step::Rejoin(accepted[ctx.plan(accepted.len() as u64) as usize]));
            if ctx.plan_bool() {
                steps.push(Step::Quiesce);
            }
            done = true;
        }
        steps.push(st);
    }
    if !done {
        if let Some(p) = accepted.first() {
            if !in_flight {
                steps.push(Step::Quiesce);
            }
            steps.push(Step::Rejoin(*p));
            steps.push(Step::Subscribe(3));
            steps.push(Step::Unsubscribe(1));
        }
    }
    run_world_x(ctx, steps, n, in_flight);
}

/// one publisher pauses reading in the middle of a history and resumes at the next quiescent point
fn paused_publisher(ctx: &mut Ctx) {
    world::swarm(ctx, SwarmOpts::default());
    let (base, n) = draw_history(ctx, false, false);
    let mut steps = Vec::new();
    let mut joined: Vec<usize> = Vec::new();
    let mut done = false;
    for st in base {
        match &st {
            Step::JoinByAccept(p) | Step::JoinByConnect(p) => joined.push(*p),
            _ => {}
        }
        let is_call = matches!(st, Step::Subscribe(_) | Step::Unsubscribe(_));
        if is_call && !done && !joined.is_empty() && ctx.plan(3) == 0 {
            steps.push(Step::Quiesce);
            steps.push(Step::StallUntilIdle(joined[ctx.plan(joined.len() as u64) as usize]));
            done = true;
        }
        steps.push(st);
    }
    if !done {
        if let Some(p) = joined.first() {
            steps.push(Step::Quiesce);
            steps.push(Step::StallUntilIdle(*p));
            for t in [3usize, 1, 2, 0] {
                steps.push(Step::Subscribe(t));
            }
            steps.push(Step::Unsubscribe(1));
        }
    }
    run_world(ctx, steps, n);
}

fn clean(ctx: &mut Ctx) {
    world::swarm(ctx, SwarmOpts::default());
    let (steps, n) = draw_history(ctx, false, false);
    run_world(ctx, steps, n);
}
fn with_duplicates(ctx: &mut Ctx) {
    world::swarm(ctx, SwarmOpts::default());
    let (steps, n) = draw_history(ctx, false, true);
    run_world(ctx, steps, n);
}
fn one_peer_fails(ctx: &mut Ctx) {
    world::swarm(ctx, SwarmOpts::default());
    let (steps, n) = draw_history(ctx, true, false);
    run_world(ctx, steps, n);
}

/// targeted enumeration of join points: subscribe ops s0..s3, one accept-join placed at every
/// position, back-pressure on the SUBSCRIBE replay so that later calls land inside it
fn join_points(ctx: &mut Ctx) {
    world::swarm(ctx, SwarmOpts { small_caps: true, ..Default::default() });
    let pos = (ctx.idx % 5) as usize;
    let early = (ctx.idx / 5) % 2 == 0;
    let mut steps = Vec::new();
    if early {
        steps.push(Step::JoinByAccept(0));
        steps.push(Step::Quiesce);
    }
    let ops = [Step::Subscribe(1), Step::Subscribe(3), Step::Unsubscribe(1), Step::Subscribe(2)];
    for (i, o) in ops.iter().enumerate() {
        if i == pos {
            steps.push(Step::JoinByAccept(1));
        }
        steps.push(o.clone());
    }
    if pos == 4 {
        steps.push(Step::JoinByAccept(1));
    }
    ctx.out.extra_shape = ctx.idx % 10;
    run_world(ctx, steps, 2);
}

pub fn def() -> PropDef {
    PropDef {
        id: "C13",
        level: "exploration",
        rule: "one case = a seeded history of subscribe/unsubscribe calls over topics {'', a, ab, b} interleaved with scripted publishers joining by accept (background handshake, concurrent with the following calls) or by connect, quiescent points, and in one stratum one publisher's connection failing (close / reset / write error); rejoin: the same histories with one accepted publisher (announced identity) closing and reconnecting under its identity - or a second connection under it appearing while the first stays open - right before one of the calls, the application never being in recv in between; join_points enumerates the position of an accept-join among four calls x early publisher present or not; each publisher's inbound tap is folded into topic counts and compared at quiescence; non-trivial = at least two publishers judged; distinct = distinct (plan, schedule, transport) hashes",
        assumptions: &["with duplicate subscribes of one topic only agreement between peers is required (the statement does not choose between set and multiset semantics)", "a publisher counts as connected once the socket has written its READY to it"],
        strata: vec![
            Stratum { name: "clean", quick: 120_000, thorough: (1_500_000) * 5, exhaustive: (false, false), run: clean, what: "no topic subscribed twice, no failures: every publisher's view equals the socket's set" },
            Stratum { name: "with_duplicates", quick: 50_000, thorough: (500_000) * 5, exhaustive: (false, false), run: with_duplicates, what: "duplicate subscribes allowed: publishers must agree" },
            Stratum { name: "one_peer_fails", quick: 80_000, thorough: (1_000_000) * 5, exhaustive: (false, false), run: one_peer_fails, what: "one publisher's connection fails; the others must still be updated" },
            Stratum { name: "paused_publisher", quick: 50_000, thorough: 2_000_000, exhaustive: (false, false), run: paused_publisher, what: "one publisher stops reading in the middle of a history and resumes at the next quiescent point: it ends up knowing everything" },
            Stratum { name: "rejoin", quick: 60_000, thorough: 2_500_000, exhaustive: (false, false), run: rejoin, what: "a publisher leaves and comes back under its announced identity in the middle of a history (the socket still holds the old connection): the live connection is told every later change" },
            Stratum { name: "rejoin_in_flight", quick: 12_000, thorough: 300_000, exhaustive: (false, false), run: rejoin_in_flight, what: "the same with the rejoin possibly overlapping the first connection's handshake (open finding 11.5 in its SUB form; one clause)" },
            Stratum { name: "join_points", quick: 60_000, thorough: (500_000) * 5, exhaustive: (false, false), run: join_points, what: "accept-join enumerated at every position among four calls" },
        ],
    }
}
