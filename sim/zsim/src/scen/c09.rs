//! C09 — ROUTER labels inbound messages with the true sender and routes by first frame.
use crate::fw::{Ctx, PropDef, Stratum};
use crate::refcodec as rc;
use crate::world::{self, from_zmq, hex, show_msg, tag_of, tagged, to_zmq, RawPeer, SwarmOpts};
use std::cell::RefCell;
use std::rc::Rc;
use std::sync::Arc;
use zeromq::prelude::*;
use zeromq::*;
use zmq_simrt as rt;

#[derive(Clone, Debug)]
struct PeerPlan {
    stype: &'static str,
    identity: Option<Vec<u8>>,
    inbound: usize,
    departs: bool,
    start_yields: u32,
}

#[derive(Clone, Debug, PartialEq)]
enum Target {
    Peer(usize),
    Unknown(Vec<u8>),
    Departed(usize),
}

#[derive(Default)]
struct St {
    conns: Vec<Option<Arc<rt::net::Conn>>>,
    keep: Vec<RawPeer>,
    viol: Vec<(&'static str, String)>,
    done: bool,
    sends_checked: u32,
    unknown_checked: u32,
    departed_checked: u32,
    half_closed_checked: u32,
}

fn router_world(ctx: &mut Ctx) {
    world::swarm(ctx, SwarmOpts::default());
    let k = 1 + ctx.plan(4) as usize;
    let mut plans = Vec::new();
    for i in 0..k {
        // "present but empty" is what libzmq peers announce by default: it means anonymous, the
        // socket must assign a unique identity just as when the property is absent
        // announced identities are arbitrary bytes: the shapes include a leading zero byte (which
        // libzmq reserves for generated identities, but which a peer may announce), all zeros,
        // embedded zeros, 0xff, and a prefix of another peer's identity
        let identity = match ctx.plan(11) {
            0 => None,
            1 => Some(vec![b'A' + i as u8]),
            2 => Some((0..16).map(|j| (i * 16 + j + 1) as u8).collect()),
            3 => Some((0..255).map(|j| ((i * 7 + j) % 251 + 1) as u8).collect()),
            4 => Some(vec![0, i as u8 + 1]),
            5 => Some(vec![0; i + 1]),
            6 => Some(vec![b'x', 0, i as u8, 0]),
            7 => Some(vec![0xff; i + 2]),
            8 => Some(b"pfx"[..].iter().copied().chain(std::iter::repeat(b'-').take(i)).collect()),
            9 => Some(vec![0, 0xde, 0xad, 0xbe, i as u8]),
            _ => Some(vec![]),
        };
        plans.push(PeerPlan { stype: ["DEALER", "REQ", "ROUTER"][ctx.plan(3) as usize], identity, inbound: 1 + ctx.plan(4) as usize, departs: k > 1 && ctx.plan(4) == 0, start_yields: ctx.plan(8) as u32 });
    }
    let nsends = 1 + ctx.plan(8) as usize;
    let mut targets = Vec::new();
    for _ in 0..nsends {
        let t = match ctx.plan(6) {
            0 => Target::Unknown(match ctx.plan(7) {
                0 => vec![],
                1 => vec![0xEE; 256],
                2 => vec![0xEE],
                3 => (0..17).map(|j| 200 + j as u8).collect(),
                // near misses of a connected peer's announced identity: one byte longer, one byte
                // shorter, last byte changed (routing is by equality, not by prefix)
                m => {
                    let j = ctx.plan(k as u64) as usize;
                    let cand = match plans[j].identity.clone().filter(|x| !x.is_empty()) {
                        Some(mut id) => {
                            match m {
                                4 => id.push(0x7f),
                                5 => {
                                    id.pop();
                                }
                                _ => {
                                    let l = id.len() - 1;
                                    id[l] ^= 0x40;
                                }
                            }
                            id
                        }
                        None => vec![0xEE, 0xEE],
                    };
                    if cand.is_empty() || cand.len() > 255 || plans.iter().any(|p| p.identity.as_ref() == Some(&cand)) {
                        vec![0xEE, 0xEF]
                    } else {
                        cand
                    }
                }
            }),
            _ => {
                let i = ctx.plan(k as u64) as usize;
                if plans[i].departs {
                    Target::Departed(i)
                } else {
                    Target::Peer(i)
                }
            }
        };
        targets.push(t);
    }
    let shapes: Vec<Vec<usize>> = (0..nsends).map(|_| (0..1 + ctx.plan(3)).map(|_| ctx.plan_pick(&[0usize, 1, 10, 255, 256, 1000])).collect()).collect();
    let st = Rc::new(RefCell::new(St::default()));
    st.borrow_mut().conns = vec![None; k];
    let (s2, plans2, targets2) = (st.clone(), plans.clone(), targets.clone());
    rt::task::spawn_local("app", async move {
        let mut router = RouterSocket::new();
        let ep = router.bind("tcp://127.0.0.1:0").await.expect("bind").to_string();
        for (i, p) in plans2.iter().cloned().enumerate() {
            let (ep, s3) = (ep.clone(), s2.clone());
            rt::task::spawn_local("peer", async move {
                for _ in 0..p.start_yields {
                    rt::task::yield_now().await;
                }
                let Ok(mut peer) = RawPeer::connect(&ep) else { return };
                s3.borrow_mut().conns[i] = Some(peer.conn.clone());
                if peer.hello(p.stype, p.identity.as_deref()).await.is_err() {
                    return;
                }
                for s in 0..p.inbound {
                    let mut m = if p.stype == "REQ" { vec![vec![]] } else { vec![] };
                    m.extend(tagged(i as u16, s as u32, &[3, 5]));
                    if peer.send_msg(&m).await.is_err() {
                        return;
                    }
                }
                if p.departs {
                    if peer.wait_hello().await.is_ok() {
                        // half of the departing peers only shut down their sending direction and
                        // go on reading: whatever the socket still writes to them is accepted
                        if i % 2 == 0 {
                            peer.half_close();
                            s3.borrow_mut().keep.push(peer);
                        } else {
                            peer.close();
                        }
                    }
                } else {
                    s3.borrow_mut().keep.push(peer);
                }
            });
        }
        // phase 1: receive until nothing more arrives; learn the labels
        let mut labels: Vec<Option<Vec<u8>>> = vec![None; plans2.len()];
        let mut counts = vec![0usize; plans2.len()];
        loop {
            let r = rt::future::or_idle(router.recv()).await;
            if std::env::var_os("ZSIM_DEBUG").is_some() {
                eprintln!("[c09] phase1 recv -> {:?}", r.as_ref().map(|r| r.as_ref().map(|m| show_msg(&from_zmq(m))).map_err(|e| e.to_string())));
            }
            match r {
                Some(Ok(m)) => {
                    let f = from_zmq(&m);
                    let Some((o, s)) = tag_of(&f) else {
                        s2.borrow_mut().viol.push(("unattributable", format!("ROUTER recv returned {}", show_msg(&f))));
                        return world::park().await;
                    };
                    let o = o as usize;
                    if o >= plans2.len() || s as usize != counts[o] {
                        s2.borrow_mut().viol.push(("inbound_out_of_order", format!("peer {o}: got message {s}, expected {}", counts.get(o).copied().unwrap_or(0))));
                        return world::park().await;
                    }
                    counts[o] += 1;
                    let label = f[0].clone();
                    let body_expect: Vec<Vec<u8>> = {
                        let mut m = if plans2[o].stype == "REQ" { vec![vec![]] } else { vec![] };
                        m.extend(tagged(o as u16, s, &[3, 5]));
                        m
                    };
                    if f[1..] != body_expect[..] {
                        s2.borrow_mut().viol.push(("inbound_frames_modified", format!("peer {o} message {s}: recv {} expected label + {}", show_msg(&f), show_msg(&body_expect))));
                        return world::park().await;
                    }
                    match &labels[o] {
                        None => labels[o] = Some(label.clone()),
                        Some(l) if *l != label => {
                            s2.borrow_mut().viol.push(("label_changed", format!("peer {o} labelled {} then {}", hex(l), hex(&label))));
                            return world::park().await;
                        }
                        _ => {}
                    }
                    if let Some(id) = plans2[o].identity.as_ref().filter(|id| !id.is_empty()) {
                        if *id != label {
                            s2.borrow_mut().viol.push(("label_not_announced_identity", format!("peer {o} announced {} but is labelled {}", hex(id), hex(&label))));
                            return world::park().await;
                        }
                    }
                    for (j, l) in labels.iter().enumerate() {
                        if j != o && l.as_ref() == Some(&label) {
                            s2.borrow_mut().viol.push(("label_shared", format!("peers {j} and {o} share label {}", hex(&label))));
                            return world::park().await;
                        }
                    }
                }
                Some(Err(_)) => {}
                None => break,
            }
        }
        // phase 2: routed sends
        let conns: Vec<Option<Arc<rt::net::Conn>>> = s2.borrow().conns.clone();
        for (n, t) in targets2.iter().enumerate() {
            let body = tagged(99, n as u32, &shapes[n]);
            // a peer that has only shut down its sending direction still reads: the statement does
            // not settle whether it counts as connected, so a send addressed to it may fail (nothing
            // written) or succeed (the exact bytes on its connection, nothing elsewhere)
            let half_closed = match t {
                Target::Departed(i) => conns[*i].as_ref().map(|c| c.write_closed(0) && c.side_state(0).closed.is_none()).unwrap_or(false),
                _ => false,
            };
            let (id, expect_peer): (Vec<u8>, Option<usize>) = match t {
                // the announced identity is the address (the label learnt from recv only where none was announced)
                Target::Peer(i) => match plans2[*i].identity.clone().filter(|x| !x.is_empty()).or(labels[*i].clone()) {
                    Some(l) => (l, Some(*i)),
                    None => continue, // label never learnt (peer sent nothing we saw)
                },
                Target::Departed(i) => match labels[*i].clone().or(plans2[*i].identity.clone().filter(|x| !x.is_empty())) {
                    Some(l) => (l, None),
                    None => continue,
                },
                Target::Unknown(b) => (b.clone(), None),
            };
            // a departed peer only counts once its connection is really closed
            if let Target::Departed(i) = t {
                match &conns[*i] {
                    Some(c) if c.side_state(0).closed.is_some() || c.write_closed(0) => {}
                    _ => continue,
                }
            }
            let before: Vec<usize> = conns.iter().map(|c| c.as_ref().map(|c| c.tap_len_from(1)).unwrap_or(0)).collect();
            let mut m = vec![id.clone()];
            m.extend(body.iter().cloned());
            let r = router.send(to_zmq(&m)).await;
            let after: Vec<usize> = conns.iter().map(|c| c.as_ref().map(|c| c.tap_len_from(1)).unwrap_or(0)).collect();
            match (expect_peer, r) {
                (Some(i), Ok(())) => {
                    let enc = rc::encode_msg(&body);
                    let tap = conns[i].as_ref().unwrap().tap_from(1);
                    if after[i] - before[i] != enc.len() || tap[before[i]..] != enc[..] {
                        s2.borrow_mut().viol.push(("routed_bytes_wrong", format!("send #{n} to peer {i}: its connection gained {} bytes, expected exactly the {} bytes of {}", after[i] - before[i], enc.len(), show_msg(&body))));
                        return world::park().await;
                    }
                    for j in 0..conns.len() {
                        if j != i && after[j] != before[j] {
                            s2.borrow_mut().viol.push(("routed_to_other_peer", format!("send #{n} addressed to peer {i} also wrote {} bytes to peer {j}", after[j] - before[j])));
                            return world::park().await;
                        }
                    }
                    s2.borrow_mut().sends_checked += 1;
                }
                (Some(i), Err(e)) => {
                    s2.borrow_mut().viol.push(("send_to_connected_peer_failed", format!("send #{n} to peer {i} (label {}) failed: {e}", hex(&id))));
                    return world::park().await;
                }
                (None, Ok(())) if half_closed => {
                    let Target::Departed(i) = t else { unreachable!() };
                    let enc = rc::encode_msg(&body);
                    let tap = conns[*i].as_ref().unwrap().tap_from(1);
                    if after[*i] - before[*i] != enc.len() || tap[before[*i]..] != enc[..] || (0..conns.len()).any(|j| j != *i && after[j] != before[j]) {
                        s2.borrow_mut().viol.push(("routed_bytes_wrong", format!("send #{n} to peer {i} (which has shut down its sending direction and still reads) returned Ok; tap deltas {:?}, expected exactly the {} bytes of {} on its connection", after.iter().zip(before.iter()).map(|(a, b)| a - b).collect::<Vec<_>>(), enc.len(), show_msg(&body))));
                        return world::park().await;
                    }
                    s2.borrow_mut().half_closed_checked += 1;
                }
                (None, Ok(())) => {
                    let what = if matches!(t, Target::Departed(_)) { "send_to_departed_peer_succeeded" } else { "send_to_unknown_identity_succeeded" };
                    s2.borrow_mut().viol.push((what, format!("send #{n} to {:?} (identity {}) returned Ok; tap deltas {:?}", t, hex(&id), after.iter().zip(before.iter()).map(|(a, b)| a - b).collect::<Vec<_>>())));
                    return world::park().await;
                }
                (None, Err(_)) => {
                    for j in 0..conns.len() {
                        if after[j] != before[j] {
                            s2.borrow_mut().viol.push(("failed_send_wrote_bytes", format!("send #{n} to {:?} failed but wrote {} bytes to peer {j}", t, after[j] - before[j])));
                            return world::park().await;
                        }
                    }
                    if matches!(t, Target::Departed(_)) {
                        s2.borrow_mut().departed_checked += 1;
                    } else {
                        s2.borrow_mut().unknown_checked += 1;
                    }
                }
            }
        }
        s2.borrow_mut().done = true;
        world::park().await;
        drop(router);
    });
    let end = ctx.sim.run(400_000);
    if end == rt::RunEnd::Budget {
        ctx.violation("no_quiescence", "ROUTER world did not become quiescent".into());
    }
    let s = st.borrow();
    let had = !s.viol.is_empty();
    for (c, d) in s.viol.clone() {
        ctx.violation(c, d);
    }
    if !s.done && !had && end == rt::RunEnd::Quiescent {
        ctx.violation("stuck", "ROUTER script did not finish: a send or recv never completed".into());
    }
    ctx.probe_n("routed_send_checked", s.sends_checked as u64);
    ctx.probe_n("unknown_identity_send_checked", s.unknown_checked as u64);
    ctx.probe_n("departed_peer_send_checked", s.departed_checked as u64);
    ctx.probe_n("send_to_half_closed_peer_succeeded_and_was_exact", s.half_closed_checked as u64);
    if s.sends_checked + s.unknown_checked + s.departed_checked > 0 && k > 1 {
        ctx.nontrivial();
    }
    if ctx.want_sample {
        ctx.out.sample = Some(format!("ROUTER with peers {:?}; targets {:?}", plans.iter().map(|p| format!("{} id={:?} in={} departs={}", p.stype, p.identity.as_ref().map(|i| i.len()), p.inbound, p.departs)).collect::<Vec<_>>(), targets.iter().map(|t| match t { Target::Peer(i) => format!("peer{i}"), Target::Departed(i) => format!("departed{i}"), Target::Unknown(b) => format!("unknown({}B)", b.len()) }).collect::<Vec<_>>()));
    }
    drop(s);
    ctx.check_panics();
}


/// A routed send is abandoned while it is suspended in the write (the destination is not reading):
/// the peer stays a peer - it is still labelled, and a later send to its identity reaches it, after
/// whatever part of the abandoned message had already been accepted for it; the other peer gets nothing.
fn router_abandoned_send(ctx: &mut Ctx) {
    world::swarm(ctx, SwarmOpts { small_caps: false, ..Default::default() });
    let k = 1 + ctx.plan(3) as u32;
    let big_len = ctx.plan_pick(&[3_000usize, 20_000, 70_000, 200_000]);
    let cap = ctx.plan_pick(&[256usize, 1_000, 9_000]);
    let viol: Rc<RefCell<Vec<(&'static str, String)>>> = Rc::new(RefCell::new(Vec::new()));
    let done = Rc::new(RefCell::new(false));
    let (vl, dn) = (viol.clone(), done.clone());
    rt::task::spawn_local("app", async move {
        let mut router = RouterSocket::new();
        let ep = router.bind("tcp://127.0.0.1:0").await.expect("bind").to_string();
        let mut alice = RawPeer::connect(&ep).expect("connect");
        let _ = alice.hello("DEALER", Some(b"alice")).await;
        let mut bob = RawPeer::connect(&ep).expect("connect");
        let _ = bob.hello("DEALER", Some(b"bob")).await;
        rt::task::idle().await;
        // alice stops reading
        alice.conn.set_auto_drain(1, false);
        alice.conn.set_cap(1, cap);
        let big = tagged(7, 0, &[big_len]);
        let mut m = vec![b"alice".to_vec()];
        m.extend(big.iter().cloned());
        let first = rt::future::or_idle(rt::future::poll_budget(router.send(to_zmq(&m)), k)).await.flatten();
        let abandoned = first.is_none();
        if abandoned {
            rt::count("probe_routed_send_abandoned_under_back_pressure");
        }
        // she is still heard and labelled
        let _ = alice.send_msg(&tagged(1, 0, &[3])).await;
        match rt::future::or_idle(router.recv()).await {
            Some(Ok(msg)) => {
                let f = from_zmq(&msg);
                if f.first().map(|l| &l[..]) != Some(&b"alice"[..]) {
                    vl.borrow_mut().push(("label_not_announced_identity", format!("after an abandoned send to her, alice's message is labelled {}", hex(f.first().map(|l| &l[..]).unwrap_or(&[])))));
                }
            }
            other => vl.borrow_mut().push(("inbound_lost_after_abandoned_send", format!("alice's message was not delivered after an abandoned send to her: {:?}", other.map(|r| r.map(|m| show_msg(&from_zmq(&m))).map_err(|e| e.to_string()))))),
        }
        // she reads again; a later send to her identity must reach her
        alice.conn.set_cap(1, 1 << 40);
        alice.conn.set_auto_drain(1, true);
        rt::task::idle().await;
        let tail = tagged(8, 0, &[5]);
        let mut m2 = vec![b"alice".to_vec()];
        m2.extend(tail.iter().cloned());
        if let Err(e) = router.send(to_zmq(&m2)).await {
            vl.borrow_mut().push(("send_to_connected_peer_failed", format!("ROUTER: a send of {big_len} bytes to 'alice' was abandoned after {k} poll(s) under back-pressure ({}); she is still connected and heard, yet the next send to her identity failed: {e}", if abandoned { "pending" } else { "it had completed" })));
            *dn.borrow_mut() = true;
            return world::park().await;
        }
        rt::task::idle().await;
        let p = alice.inbound();
        let got = p.messages();
        let ok = match got.len() {
            1 => got[0] == tail,
            2 => got[0] == big && got[1] == tail,
            _ => false,
        };
        if p.error.is_some() || !ok {
            vl.borrow_mut().push(("routed_bytes_wrong", format!("ROUTER: after an abandoned send, alice's connection carries {:?} (stream error {:?}); expected [the abandoned message, whole,] then the later one", got.iter().map(|m| show_msg(m)).collect::<Vec<_>>(), p.error)));
        }
        if !bob.inbound().messages().is_empty() {
            vl.borrow_mut().push(("routed_to_other_peer", "bob received something addressed to alice".into()));
        }
        *dn.borrow_mut() = true;
        world::park().await;
        drop(router);
        drop(alice);
        drop(bob);
    });
    let end = ctx.sim.run(400_000);
    if end == rt::RunEnd::Budget {
        ctx.violation("no_quiescence", "ROUTER abandoned send: no quiescence".into());
    }
    ctx.check_panics();
    for (c, d) in viol.borrow().clone() {
        ctx.violation(c, d);
    }
    if *done.borrow() {
        ctx.nontrivial();
    } else if end == rt::RunEnd::Quiescent && ctx.sim.rt.panics.borrow().is_empty() && viol.borrow().is_empty() {
        ctx.violation("stuck", "ROUTER abandoned send: the scenario never completed".into());
    }
    if ctx.want_sample {
        ctx.out.sample = Some(format!("ROUTER: send of {big_len} bytes to a peer that accepts {cap}, abandoned after {k} polls; then a later send to the same identity"));
    }
}

/// A routed send is blocked by back-pressure (its target does not read) when the target's peer joins
/// a second time under the same identity; the first connection then drains and the send completes.
/// From then on one connection is registered under the identity - the newcomer's, since the socket
/// admitted it - and a request arriving on it is answered on it, not on the other one.
fn rejoin_during_blocked_send(ctx: &mut Ctx) {
    world::swarm(ctx, SwarmOpts { small_caps: false, ..Default::default() });
    let big_len = ctx.plan_pick(&[3_000usize, 20_000, 70_000, 200_000]);
    let cap = ctx.plan_pick(&[256usize, 1_000, 9_000]);
    let wait_yields = ctx.plan(6) as u32;
    let old_leaves = ctx.plan_bool();
    let viol: Rc<RefCell<Vec<(&'static str, String)>>> = Rc::new(RefCell::new(Vec::new()));
    let done = Rc::new(RefCell::new(false));
    let (vl, dn) = (viol.clone(), done.clone());
    rt::task::spawn_local("app", async move {
        let mut router = RouterSocket::new();
        let ep = router.bind("tcp://127.0.0.1:0").await.expect("bind").to_string();
        let mut x1 = RawPeer::connect(&ep).expect("connect");
        let _ = x1.hello("DEALER", Some(b"xavier")).await;
        let _ = x1.send_msg(&tagged(1, 0, &[3])).await;
        rt::task::idle().await;
        let _ = rt::future::or_idle(router.recv()).await;
        // the first connection stops reading; beside the blocked send, the peer joins again
        x1.conn.set_auto_drain(1, false);
        x1.conn.set_cap(1, cap);
        let c1 = x1.conn.clone();
        let (c1b, side1) = (x1.conn.clone(), x1.side);
        let old_msgs = move || rc::parse_stream(&c1b.tap_from(1 - side1)).messages().len();
        let ep2 = ep.clone();
        let joiner = rt::task::spawn_local("joiner", async move {
            for _ in 0..wait_yields {
                rt::task::yield_now().await;
            }
            let mut x2 = RawPeer::connect(&ep2).expect("connect");
            let _ = x2.hello("DEALER", Some(b"xavier")).await;
            // the world settles with the send still blocked (and the handshake as far as it gets)
            rt::task::idle().await;
            rt::count("probe_peer_rejoined_while_a_send_to_it_was_blocked");
            c1.set_cap(1, 1 << 40);
            c1.set_auto_drain(1, true);
            x2
        });
        let big = tagged(7, 0, &[big_len]);
        let mut m = vec![b"xavier".to_vec()];
        m.extend(big.iter().cloned());
        let _ = router.send(to_zmq(&m)).await;
        let Ok(mut x2) = joiner.await else {
            return world::park().await;
        };
        rt::task::idle().await;
        let mut x1 = Some(x1);
        if old_leaves {
            x1.take().unwrap().close();
            rt::task::idle().await;
        }
        // a request on the new connection, answered to its label
        let _ = x2.send_msg(&tagged(2, 0, &[4])).await;
        let mut label = None;
        for _ in 0..6 {
            match rt::future::or_idle(router.recv()).await {
                Some(Ok(msg)) => {
                    let f = from_zmq(&msg);
                    if world::tag_of(&f) == Some((2, 0)) {
                        label = f.first().cloned();
                        break;
                    }
                }
                Some(Err(_)) => {}
                None => break,
            }
        }
        let Some(label) = label else {
            vl.borrow_mut().push(("rejoined_peer_not_heard", format!("ROUTER: a peer joined again under its identity while a send of {big_len} bytes to it was blocked; a request on its new connection was never delivered")));
            *dn.borrow_mut() = true;
            return world::park().await;
        };
        if label != b"xavier" {
            vl.borrow_mut().push(("label_not_announced_identity", format!("the request on the new connection is labelled {}", hex(&label))));
        }
        let (b1, b2) = (old_msgs(), x2.inbound().messages().len());
        let reply = tagged(3, 0, &[5]);
        let mut m2 = vec![label.clone()];
        m2.extend(reply.iter().cloned());
        let r = router.send(to_zmq(&m2)).await;
        rt::task::idle().await;
        let (a1, a2) = (old_msgs(), x2.inbound().messages().len());
        if a2 != b2 + 1 || a1 != b1 || x2.inbound().messages().last() != Some(&reply) {
            vl.borrow_mut().push(("reply_not_on_the_connection_that_asked", format!("ROUTER: a peer joined again under its identity while a send of {big_len} bytes to it was blocked ({}); a request then arrived on the new connection, labelled with that identity; the reply addressed to the label (send result {:?}) put {} message(s) on the new connection and {} on the old one", if old_leaves { "the old connection was closed afterwards" } else { "both connections stay open" }, r.as_ref().map_err(|e| e.to_string()), a2 - b2, a1 - b1)));
        }
        *dn.borrow_mut() = true;
        world::park().await;
        drop(router);
        drop(x2);
        drop(x1);
    });
    let end = ctx.sim.run(400_000);
    if end == rt::RunEnd::Budget {
        ctx.violation("no_quiescence", "ROUTER rejoin during a blocked send: no quiescence".into());
    }
    ctx.check_panics();
    for (c, d) in viol.borrow().clone() {
        ctx.violation(c, d);
    }
    if *done.borrow() {
        ctx.nontrivial();
    } else if end == rt::RunEnd::Quiescent && ctx.sim.rt.panics.borrow().is_empty() && viol.borrow().is_empty() {
        ctx.violation("stuck", "ROUTER rejoin during a blocked send: the scenario never completed".into());
    }
    if ctx.want_sample {
        ctx.out.sample = Some(format!("ROUTER: send of {big_len} bytes to a peer that accepts {cap}; the peer joins again under its identity meanwhile"));
    }
}

pub fn def() -> PropDef {
    PropDef {
        id: "C09",
        level: "exploration",
        rule: "one case = ROUTER socket with 1..4 scripted peers (DEALER/REQ/ROUTER; identity none, empty, or announced: 1, 16 or 255 bytes, leading zero byte, all zeros, embedded zeros, 0xff bytes, one a prefix of another), each sending 1..4 tagged messages at drawn times, some departing after the handshake; then 1..8 routed sends to targets drawn from {each peer, departed peer, unknown identity (empty, 1, 17, 256 bytes, near misses of a connected peer's identity: one byte longer / shorter / last byte changed)}; taps snapshotted around every send; transport and schedule drawn per case; rejoin_during_blocked_send: a routed send of 3..200 kB is blocked by a target that accepts 256..9000 bytes, the target's peer joins again under the same identity meanwhile, the first connection drains (and is closed or stays open); a request on the new connection must then be labelled with the identity and its reply written to the new connection only; rejoin_routable: the ROUTER departure/rejoin histories of C16 judged for label and routability of the rejoined peer, right after the rejoin and again after further recv calls; non-trivial = more than one peer and at least one routed send judged; distinct = distinct (plan, schedule, transport) hashes",
        assumptions: &["announced identities are unique (the generator never duplicates them)", "single-frame sends are outside the statement (the socket asserts on them)", "a departed peer is used as a target only once its connection is closed"],
        strata: vec![
            Stratum { name: "router_world", quick: 120_000, thorough: (2_000_000) * 5, exhaustive: (false, false), run: router_world, what: "labelling of inbound messages and routing of outbound ones, checked on connection taps" },
            Stratum { name: "router_abandoned_send", quick: 20_000, thorough: 1_000_000, exhaustive: (false, false), run: router_abandoned_send, what: "a routed send abandoned under back-pressure: the peer stays labelled and routable, its stream stays whole, nobody else gets the bytes" },
            Stratum { name: "rejoin_during_blocked_send", quick: 12_000, thorough: 600_000, exhaustive: (false, false), run: rejoin_during_blocked_send, what: "a peer joins again under its identity while a routed send to its first connection is blocked by back-pressure; afterwards a request on the new connection is answered on the new connection" },
            Stratum { name: "rejoin_routable", quick: 9_600, thorough: 800_000, exhaustive: (false, false), run: super::c16::rejoin_routable, what: "a peer that comes back under its announced identity (16 departure/rejoin histories) stays labelled with it and routable, also after further recv calls" },
        ],
    }
}
