//! C01 — message framing conforms to ZMTP 3.0 and round-trips exactly.
//!
//! The quantifier of this property is over inputs only. What the simulator adds is the
//! transport dimension (write segmentation, back-pressure, which socket type emits) and a tap
//! oracle; the frame-length grid is pushed through real sockets, nothing more is claimed.
use crate::fw::{Ctx, PropDef, Stratum};
use crate::oracle;
use crate::refcodec as rc;
use crate::socks::{AnySock, Kind, ALL_KINDS};
use crate::world::{self, from_zmq, show_msg, to_zmq, RawListener, RawPeer, SwarmOpts, GRID};
use std::cell::RefCell;
use std::rc::Rc;
use zmq_simrt as rt;

const OUT_KINDS: [Kind; 8] = [Kind::Push, Kind::Dealer, Kind::Pub, Kind::Xpub, Kind::Router, Kind::Req, Kind::Rep, Kind::Sub];
const IN_KINDS: [Kind; 7] = [Kind::Pull, Kind::Dealer, Kind::Sub, Kind::Xpub, Kind::Router, Kind::Rep, Kind::Req];

fn frame(len: usize, salt: usize) -> Vec<u8> {
    (0..len).map(|i| (i * 11 + salt * 5 + 3) as u8).collect()
}

fn lengths(ctx: &Ctx, idx: u64) -> Vec<usize> {
    let g = GRID.len() as u64;
    if idx < g * g {
        // every pair of grid lengths, first and last position
        vec![GRID[(idx / g) as usize], GRID[(idx % g) as usize]]
    } else if idx < g * g + g {
        vec![GRID[(idx - g * g) as usize]]
    } else {
        // mostly 1..5 frames; one case in sixteen has many short frames (MORE on every frame but
        // the last, whatever the position)
        let n = if ctx.plan(16) == 1 { 6 + ctx.plan(295) as usize } else { 1 + ctx.plan(5) as usize };
        if n > 5 {
            return (0..n).map(|_| ctx.plan_pick(&[0usize, 0, 1, 2, 7, 255, 256])).collect();
        }
        (0..n)
            .map(|_| match ctx.plan(12) {
                0..=5 => GRID[ctx.plan(g) as usize],
                6..=9 => ctx.plan(70_000) as usize,
                10 => ctx.plan(300) as usize,
                _ => {
                    if ctx.plan(8) == 0 {
                        (1 << 20) + ctx.plan(3 << 20) as usize
                    } else {
                        ctx.plan(1000) as usize
                    }
                }
            })
            .collect()
    }
}

struct Out {
    viol: Vec<(&'static str, String)>,
    done: bool,
}

fn finish(ctx: &mut Ctx, end: rt::RunEnd, out: &Rc<RefCell<Out>>, what: &str) {
    if end == rt::RunEnd::Budget {
        ctx.violation("no_quiescence", format!("{what}: no quiescence"));
    }
    let o = out.borrow();
    let had = !o.viol.is_empty();
    for (c, d) in o.viol.clone() {
        if c == "harness" {
            ctx.harness_error(d);
        } else {
            ctx.violation(c, d);
        }
    }
    if !o.done && !had && end == rt::RunEnd::Quiescent {
        ctx.violation("stuck", format!("{what}: a send or recv never completed"));
    }
    drop(o);
    ctx.check_panics();
}

/// socket -> wire: what an emitting socket of each kind writes for a message
fn wire_out(ctx: &mut Ctx) {
    let kind = OUT_KINDS[(ctx.idx % OUT_KINDS.len() as u64) as usize];
    let lens = lengths(ctx, ctx.idx / OUT_KINDS.len() as u64);
    world::swarm(ctx, SwarmOpts { tiny_chunks: lens.iter().sum::<usize>() < 4000, ..Default::default() });
    let frames: Vec<Vec<u8>> = lens.iter().enumerate().map(|(i, l)| frame(*l, i)).collect();
    let out = Rc::new(RefCell::new(Out { viol: vec![], done: false }));
    let (o2, frames2) = (out.clone(), frames.clone());
    let peer_type = kind.peers()[0];
    rt::task::spawn_local("app", async move {
        let mut sock = AnySock::new(kind, None);
        let ep = sock.bind("tcp://127.0.0.1:0").await.expect("bind").to_string();
        let mut peer = RawPeer::connect(&ep).expect("connect");
        peer.hello(peer_type, Some(b"P")).await.expect("hello");
        if matches!(kind, Kind::Pub | Kind::Xpub) {
            peer.send_msg(&[vec![1]]).await.expect("subscribe");
            // PUB flushes with a no-op waker: only a subscriber that accepts every write is owed
            // every byte by the time the world is quiet (C12)
            peer.conn.set_io(1, |io| io.wyield_pm = 0);
            peer.conn.set_cap(1, 1 << 40);
        }
        if kind == Kind::Xpub {
            while let Some(Ok(_)) = rt::future::or_idle(sock.recv()).await {}
        } else {
            rt::task::idle().await;
        }
        // what goes in, and what must come out on the wire
        let (sent, expect_wire): (Vec<Vec<u8>>, Vec<Vec<u8>>) = match kind {
            Kind::Router => {
                let mut s = vec![b"P".to_vec()];
                s.extend(frames2.iter().cloned());
                (s, frames2.clone())
            }
            Kind::Req => {
                let mut w = vec![vec![]];
                w.extend(frames2.iter().cloned());
                (frames2.clone(), w)
            }
            Kind::Rep => {
                // a request first, so that a reply is legal
                peer.send_msg(&[vec![], b"q".to_vec()]).await.expect("request");
                if sock.recv().await.is_err() {
                    o2.borrow_mut().viol.push(("harness", "REP did not receive the priming request".into()));
                    return world::park().await;
                }
                let mut w = vec![vec![]];
                w.extend(frames2.iter().cloned());
                (frames2.clone(), w)
            }
            Kind::Sub => (vec![], vec![]),
            _ => (frames2.clone(), frames2.clone()),
        };
        let before = peer.inbound().messages().len();
        if kind == Kind::Sub {
            // SUB emits subscription messages: topic text of grid length (ASCII), capped
            let t: String = (0..frames2[0].len().min(70_000)).map(|i| (b'a' + (i % 26) as u8) as char).collect();
            if let Err(e) = sock.subscribe(&t).await {
                o2.borrow_mut().viol.push(("send_failed", e.to_string()));
                return world::park().await;
            }
            rt::task::idle().await;
            let msgs = peer.inbound().messages();
            let mut e = vec![1u8];
            e.extend_from_slice(t.as_bytes());
            if msgs.len() != before + 1 || msgs[before] != vec![e.clone()] {
                o2.borrow_mut().viol.push(("wire_frames_differ", format!("SUB subscribe({}B topic): wire {:?}", t.len(), msgs.get(before).map(|m| show_msg(m)))));
                return world::park().await;
            }
        } else {
            if let Err(e) = sock.send(to_zmq(&sent)).await {
                o2.borrow_mut().viol.push(("send_failed", format!("{} send of {}: {e}", kind.name(), show_msg(&sent))));
                return world::park().await;
            }
            rt::task::idle().await;
            let tap = peer.inbound_raw();
            let w = oracle::check_library_stream(&tap, Some(kind.name()), Some(None));
            if let Some(p) = w.problems.first() {
                o2.borrow_mut().viol.push(("wire_malformed", format!("{} sending {}: {p}", kind.name(), show_msg(&sent))));
                return world::park().await;
            }
            let msgs = w.parsed.messages();
            if msgs.len() != before + 1 || msgs[before] != expect_wire || w.parsed.partial != 0 {
                o2.borrow_mut().viol.push(("wire_frames_differ", format!("{} sent {}; the independent decoder reads {:?} (+{} stray bytes), expected {}", kind.name(), show_msg(&sent), msgs.get(before).map(|m| show_msg(m)), w.parsed.partial, show_msg(&expect_wire))));
                return world::park().await;
            }
            // byte-exact against the reference encoder: flags, size form, no extra bytes
            let enc = rc::encode_msg(&expect_wire);
            if !tap.ends_with(&enc) {
                o2.borrow_mut().viol.push(("wire_bytes_not_canonical", format!("{} sent {}: the bytes on the wire differ from the canonical ZMTP 3.0 encoding", kind.name(), show_msg(&sent))));
                return world::park().await;
            }
        }
        o2.borrow_mut().done = true;
        world::park().await;
        drop(sock);
        drop(peer);
    });
    let end = ctx.sim.run(2_000_000);
    finish(ctx, end, &out, "wire_out");
    ctx.out.extra_shape = ctx.idx;
    ctx.nontrivial();
    if ctx.want_sample {
        ctx.out.sample = Some(format!("{} emits a message with frame lengths {:?}", kind.name(), lens));
    }
}

/// wire -> socket: reference-encoded bytes must come back from recv as identical frames
fn wire_in(ctx: &mut Ctx) {
    let kind = IN_KINDS[(ctx.idx % IN_KINDS.len() as u64) as usize];
    let lens = lengths(ctx, ctx.idx / IN_KINDS.len() as u64);
    world::swarm(ctx, SwarmOpts { tiny_chunks: lens.iter().sum::<usize>() < 4000, ..Default::default() });
    let frames: Vec<Vec<u8>> = lens.iter().enumerate().map(|(i, l)| frame(*l, i + 7)).collect();
    let out = Rc::new(RefCell::new(Out { viol: vec![], done: false }));
    let (o2, frames2) = (out.clone(), frames.clone());
    let peer_type = kind.peers()[0];
    rt::task::spawn_local("app", async move {
        let mut sock = AnySock::new(kind, None);
        let ep = sock.bind("tcp://127.0.0.1:0").await.expect("bind").to_string();
        let mut peer = RawPeer::connect(&ep).expect("connect");
        peer.hello(peer_type, Some(b"P")).await.expect("hello");
        let (wire, expect): (Vec<Vec<u8>>, Vec<Vec<u8>>) = match kind {
            Kind::Router => {
                let mut e = vec![b"P".to_vec()];
                e.extend(frames2.iter().cloned());
                (frames2.clone(), e)
            }
            Kind::Rep | Kind::Req => {
                let mut w = vec![vec![]];
                w.extend(frames2.iter().cloned());
                (w, frames2.clone())
            }
            _ => (frames2.clone(), frames2.clone()),
        };
        if kind == Kind::Req {
            rt::task::idle().await;
            if sock.send(to_zmq(&[b"q".to_vec()])).await.is_err() {
                o2.borrow_mut().viol.push(("harness", "REQ priming request failed".into()));
                return world::park().await;
            }
        }
        peer.send_msg(&wire).await.expect("write");
        match sock.recv().await {
            Ok(m) => {
                let got = from_zmq(&m);
                if got != expect {
                    o2.borrow_mut().viol.push(("decoded_frames_differ", format!("{} was sent {} and recv returned {} (expected {})", kind.name(), show_msg(&wire), show_msg(&got), show_msg(&expect))));
                    return world::park().await;
                }
            }
            Err(e) => {
                o2.borrow_mut().viol.push(("decode_failed", format!("{} was sent {}: recv failed: {e}", kind.name(), show_msg(&wire))));
                return world::park().await;
            }
        }
        o2.borrow_mut().done = true;
        world::park().await;
        drop(sock);
        drop(peer);
    });
    let end = ctx.sim.run(2_000_000);
    finish(ctx, end, &out, "wire_in");
    ctx.out.extra_shape = ctx.idx;
    ctx.nontrivial();
    if ctx.want_sample {
        ctx.out.sample = Some(format!("{} receives a message with frame lengths {:?}", kind.name(), lens));
    }
}

/// greeting + READY of all nine socket types x identity {none, 1, 255 bytes} x {accepting, connecting}
fn hello(ctx: &mut Ctx) {
    // the first 54 cases are the undisturbed corner grid; then every identity length 0..=255 for
    // every socket type and side (the READY body crosses the short/long command boundary at an
    // identity length that depends on the socket type name), then the grid again under drawn transport
    let sweep = ctx.idx >= 54 && ctx.idx < 54 + 9 * 256 * 2;
    let cfg = ctx.idx % 54;
    let (kind, idlen, connecting) = if sweep {
        let j = ctx.idx - 54;
        (ALL_KINDS[(j % 9) as usize], ((j / 9) % 256) as usize, j / (9 * 256) == 1)
    } else {
        (ALL_KINDS[(cfg % 9) as usize], [0usize, 1, 255][((cfg / 9) % 3) as usize], cfg / 27 == 1)
    };
    if ctx.idx < 54 + 9 * 256 * 2 {
        world::plain(ctx);
    } else {
        world::swarm(ctx, SwarmOpts::default());
    }
    let identity: Option<Vec<u8>> = if idlen == 0 { None } else { Some((0..idlen).map(|i| (i % 250 + 1) as u8).collect()) };
    let out = Rc::new(RefCell::new(Out { viol: vec![], done: false }));
    let (o2, id2) = (out.clone(), identity.clone());
    rt::task::spawn_local("app", async move {
        let mut sock = AnySock::new(kind, id2.as_deref());
        let peer;
        if connecting {
            let (l, lep) = RawListener::bind("tcp://127.0.0.1:0").expect("listen");
            let acc = rt::task::spawn_local("acceptor", async move {
                let mut p = l.accept().await.expect("accept");
                p.hello(kind.peers()[0], None).await.expect("hello");
                p
            });
            if let Err(e) = sock.connect(&lep).await {
                o2.borrow_mut().viol.push(("connect_failed", e.to_string()));
                return world::park().await;
            }
            peer = acc.await.expect("acceptor");
        } else {
            let ep = sock.bind("tcp://127.0.0.1:0").await.expect("bind").to_string();
            let mut p = RawPeer::connect(&ep).expect("connect");
            p.hello(kind.peers()[0], None).await.expect("hello");
            peer = p;
        }
        rt::task::idle().await;
        let tap = peer.inbound_raw();
        let w = oracle::check_library_stream(&tap, Some(kind.name()), Some(id2.as_deref()));
        for p in &w.problems {
            o2.borrow_mut().viol.push(("hello_malformed", format!("{} (identity {} bytes, {}): {p}", kind.name(), idlen, if connecting { "connecting" } else { "accepting" })));
        }
        if w.parsed.items.len() < 2 {
            o2.borrow_mut().viol.push(("hello_incomplete", format!("{}: greeting + READY not complete on the wire ({} bytes)", kind.name(), tap.len())));
        } else {
            // READY frame form: short command (04) iff body <= 255, long (06) otherwise
            let r = &w.parsed.items[1];
            let body_len = r.end - r.start;
            let flag = tap[r.start];
            let long = flag & 2 != 0;
            let payload = if long { body_len - 9 } else { body_len - 2 };
            if (payload > 255) != long || flag & 0xfd != 0x04 {
                o2.borrow_mut().viol.push(("ready_frame_form_wrong", format!("{}: READY of {} body bytes sent with flags {:#04x}", kind.name(), payload, flag)));
            }
            if w.parsed.items.len() > 2 && kind != Kind::Sub {
                o2.borrow_mut().viol.push(("unexpected_bytes_after_ready", format!("{} wrote {} further items after READY", kind.name(), w.parsed.items.len() - 2)));
            }
        }
        o2.borrow_mut().done = true;
        world::park().await;
        drop(sock);
        drop(peer);
    });
    let end = ctx.sim.run(200_000);
    finish(ctx, end, &out, "hello");
    ctx.out.extra_shape = cfg;
    ctx.nontrivial();
    if ctx.want_sample {
        ctx.out.sample = Some(format!("{} {} with identity of {} bytes: greeting + READY on the wire", kind.name(), if connecting { "connecting" } else { "accepting" }, idlen));
    }
}

pub fn def() -> PropDef {
    let g = GRID.len() as u64;
    let enumerated = (g * g + g) * OUT_KINDS.len() as u64;
    let enumerated_in = (g * g + g) * IN_KINDS.len() as u64;
    PropDef {
        id: "C01",
        level: "exploration",
        rule: "wire_out / wire_in: the case index enumerates every pair of grid lengths {0,1,2,254,255,256,257,8191,8192,8193,65535,65536,131071,131072,131073} as a 2-frame message and every single grid length, for each emitting (8) resp. receiving (7) socket kind; further indices draw 1..5 frames with grid/random lengths and, rarely, 1-4 MiB, or (one in sixteen) 6..300 short frames; each case runs through a real socket under drawn write/read segmentation and back-pressure; wire_out_backlog: the slow-subscriber world of C12 (messages of one, two and three frames published while a subscriber's connection buffer holds a backlog, then resumes): its stream must parse as whole published messages with MORE on every frame but the last; hello: all 9 socket types x identity {none, 1, 255 bytes} x {accepting, connecting}, then every identity length 0..255 x 9 types x 2 sides (4608 cases, undisturbed), then the corner grid under drawn transport; every case is non-trivial (it judges one message or handshake); distinct = distinct (case, plan, schedule, transport)",
        assumptions: &["input space enumerated over the boundary grid only, sampled beyond it", "the tap oracle is an independent RFC-23 decoder and encoder sharing no code with the library"],
        strata: vec![
            Stratum { name: "wire_out", quick: enumerated + 8_000, thorough: (enumerated + 300_000) * 5, exhaustive: (false, false), run: wire_out, what: "socket -> wire, byte-exact against the reference encoder" },
            Stratum { name: "wire_in", quick: enumerated_in + 8_000, thorough: (enumerated_in + 300_000) * 5, exhaustive: (false, false), run: wire_in, what: "reference-encoded wire -> recv" },
            Stratum { name: "wire_out_backlog", quick: 12_000, thorough: 600_000, exhaustive: (false, false), run: super::c12::slow_world, what: "PUB/XPUB encoding into a connection buffer that still holds unflushed bytes (slow subscribers that stall and resume): what reaches them is a sequence of whole, well-formed published messages" },
            Stratum { name: "hello", quick: 54 + 4608 + 54 * 20, thorough: (54 * 2000) * 5, exhaustive: (true, true), run: hello, what: "greeting and READY of every socket type / identity option / side" },
        ],
    }
}
