//! C06 — a waiting receiver is always woken, and no peer is starved.
use super::recv::{self, RecvCfg};
use crate::fw::{Ctx, PropDef, Stratum};
use crate::socks::RECV_KINDS;

fn l1(ctx: &mut Ctx) {
    crate::l1::run(ctx);
}

/// the component simulation with 130..229 peers: all of them idle at once, then all speaking at once
fn l1_crowd(ctx: &mut Ctx) {
    crate::l1::CROWD.with(|c| c.set(true));
    crate::l1::run(ctx);
}

/// L2 liveness: at quiescence no complete undelivered message may exist while the application is
/// parked in recv (the `not_delivered_at_quiescence` clause of the delivery oracle).
fn l2(ctx: &mut Ctx) {
    let kind = RECV_KINDS[(ctx.idx % RECV_KINDS.len() as u64) as usize];
    let out = recv::run(ctx, RecvCfg { kind, faults: false, cancel: false, max_senders: 4, max_msgs: 10, big: false, rejoin: false, long: false });
    recv::check_delivery(ctx, &out);
    ctx.check_panics();
}

pub fn def() -> PropDef {
    PropDef {
        id: "C06",
        level: "exploration",
        rule: "l1: one case = one seeded history of the real fair queue with 1..4 scripted peers, foreign events (produce+wake, insert, close, spurious/stale wake) placed between polls, inside stream polls and at every mutex boundary; non-trivial when an event landed while poll_next was in progress; l1_crowd: the same with 130..229 peers, no fairness phase, and two rounds of 'everything delivered, receiver parked, every peer produces one item'; l2: receive world as in C05; l2_rejoin: the 96 departure/rejoin histories of C16 (6 socket types x 4 timings x {close, cut, reset, old connection left open}) under drawn transport and schedule, judged only for 'the rejoined peer's message is delivered'; distinct = distinct (plan hash, schedule hash, transport hash) among non-trivial cases",
        assumptions: &["wakers are fired at most once per registration except for injected spurious/stale wakes, which relax the fairness bound by one each", "fairness bound asserted: at most 2n+2 (+1 per injected spurious wake) deliveries from other peers while a peer has an item queued; looser than the implementation's n-1 on purpose"],
        strata: vec![
            Stratum { name: "l1_fairqueue", quick: 800_000, thorough: (20_000_000) * 2, exhaustive: (false, false), run: l1, what: "component simulation of the fair queue with in-window events" },
            Stratum { name: "l1_crowd", quick: 3_000, thorough: 300_000, exhaustive: (false, false), run: l1_crowd, what: "the component simulation with 130..229 peers: a crowd that is idle all at once (one call polls every stream without a delivery), then speaks all at once: nobody is left unheard" },
            Stratum { name: "l2_rejoin", quick: 19_200, thorough: 1_600_000, exhaustive: (false, false), run: super::c16::rejoin_heard, what: "a peer that comes back under its announced identity (old connection closed, cut, reset, or still open and idle; four timings) is heard: its message is available, recv completes" },
            Stratum { name: "l2_liveness", quick: 60_000, thorough: (1_000_000) * 2, exhaustive: (false, false), run: l2, what: "whole library: nobody parked in recv while a complete message is undelivered" },
        ],
    }
}
