//! C15 — proxy() forwards every message verbatim in both directions.
use crate::fw::{Ctx, PropDef, Stratum};
use crate::refcodec as rc;
use crate::world::{self, from_zmq, show_msg, tag_of, tagged, to_zmq, RawListener, RawPeer, SwarmOpts};
use std::cell::RefCell;
use std::rc::Rc;
use std::sync::Arc;
use zeromq::prelude::*;
use zeromq::*;
use zmq_simrt as rt;

#[derive(Default)]
struct St {
    viol: Vec<(&'static str, String)>,
    clients_done: usize,
    proxy_result: Option<String>,
    front: Vec<(usize, Arc<rt::net::Conn>)>,
    back: Vec<Arc<rt::net::Conn>>,
    sink: Option<Arc<rt::net::Conn>>,
    keep: Vec<RawPeer>,
    real_got: Vec<(usize, Vec<Vec<Vec<u8>>>)>,
}

fn proxy_world(ctx: &mut Ctx) {
    // pipe capacities stay above the largest message: with smaller ones a worker writing its reply
    // and proxy() writing the next request to it block each other for good (proxy() does not read
    // while it sends). That is flow control, which the statement does not speak about.
    world::swarm(ctx, SwarmOpts { small_caps: false, ..Default::default() });
    let nc = 1 + ctx.plan(3) as usize;
    let nw = 1 + ctx.plan(3) as usize;
    let real_c: Vec<bool> = (0..nc).map(|_| ctx.plan_bool()).collect();
    let real_w: Vec<bool> = (0..nw).map(|_| ctx.plan_bool()).collect();
    let rounds: Vec<u32> = (0..nc).map(|_| 1 + ctx.plan(4) as u32).collect();
    let capture = (ctx.idx % 4) as usize; // 0 none, 1 PUSH, 2 PUB, 3 DEALER
    // one case in ten: the workers turn up only after the first requests have reached a backend
    // without peers. The proxy may then stop (it hands the error, with the message in it, to its
    // caller) - but if it goes on running, that request must still be forwarded
    let late_workers = ctx.plan(10) == 1;
    let shapes: Vec<Vec<usize>> = (0..8).map(|_| (0..1 + ctx.plan(3)).map(|_| ctx.plan_pick(&[0usize, 1, 20, 255, 256, 3000])).collect()).collect();
    let st = Rc::new(RefCell::new(St::default()));
    let s2 = st.clone();
    let (real_c2, real_w2, rounds2, shapes2) = (real_c.clone(), real_w.clone(), rounds.clone(), shapes.clone());
    rt::task::spawn_local("main", async move {
        let mut frontend = RouterSocket::new();
        let mut backend = DealerSocket::new();
        let fep = frontend.bind("tcp://127.0.0.1:0").await.expect("bind").to_string();
        let bep = backend.bind("tcp://127.0.0.1:0").await.expect("bind").to_string();
        // capture socket connected to a scripted sink
        let mut cap: Option<Box<dyn CaptureSocket>> = None;
        if capture != 0 {
            let (l, lep) = RawListener::bind("tcp://127.0.0.1:0").expect("sink listener");
            let s3 = s2.clone();
            let sink_type = ["", "PULL", "SUB", "ROUTER"][capture];
            let acc = rt::task::spawn_local("sink", async move {
                if let Ok(mut p) = l.accept().await {
                    s3.borrow_mut().sink = Some(p.conn.clone());
                    let _ = p.hello(sink_type, None).await;
                    if sink_type == "SUB" {
                        let _ = p.send_msg(&[vec![1]]).await;
                    }
                    // the sink accepts every write
                    p.conn.set_io(0, |io| io.wyield_pm = 0);
                    p.conn.set_cap(0, 1 << 40);
                    s3.borrow_mut().keep.push(p);
                }
            });
            match capture {
                1 => {
                    let mut s = PushSocket::new();
                    s.connect(&lep).await.expect("capture connect");
                    cap = Some(Box::new(s));
                }
                2 => {
                    let mut s = PubSocket::new();
                    s.connect(&lep).await.expect("capture connect");
                    cap = Some(Box::new(s));
                }
                _ => {
                    let mut s = DealerSocket::new();
                    s.connect(&lep).await.expect("capture connect");
                    cap = Some(Box::new(s));
                }
            }
            let _ = acc.await;
            rt::task::idle().await;
        }
        // workers first: every worker admitted before the first request
        for w in 0..nw {
            let (bep, s3) = (bep.clone(), s2.clone());
            if real_w2[w] {
                rt::task::spawn_local("worker", async move {
                    if late_workers {
                        rt::task::idle().await;
                        if s3.borrow().proxy_result.is_some() {
                            // the proxy has stopped and taken its sockets with it: nobody to connect to
                            return world::park().await;
                        }
                    }
                    let mut rep = RepSocket::new();
                    if rep.connect(&bep).await.is_err() {
                        s3.borrow_mut().viol.push(("harness", "worker connect failed".into()));
                        return world::park().await;
                    }
                    loop {
                        match rep.recv().await {
                            Ok(m) => {
                                if rep.send(m).await.is_err() {
                                    break;
                                }
                            }
                            Err(_) => break,
                        }
                    }
                    world::park().await;
                    drop(rep);
                });
            } else {
                rt::task::spawn_local("raw-worker", async move {
                    if late_workers {
                        rt::task::idle().await;
                    }
                    let Ok(mut p) = RawPeer::connect(&bep) else { return };
                    s3.borrow_mut().back.push(p.conn.clone());
                    if p.hello("REP", None).await.is_err() {
                        return;
                    }
                    let mut answered = 0usize;
                    loop {
                        if !p.wait_messages(answered + 1).await {
                            break;
                        }
                        let msgs = p.inbound().messages();
                        while answered < msgs.len() {
                            // echo verbatim, envelope included
                            if p.send_msg(&msgs[answered]).await.is_err() {
                                return world::park().await;
                            }
                            answered += 1;
                        }
                    }
                    world::park().await;
                    drop(p);
                });
            }
        }
        // let the workers be admitted
        if !late_workers {
            for _ in 0..3 {
                rt::task::idle().await;
            }
        }
        let s3 = s2.clone();
        rt::task::spawn_local("proxy", async move {
            let r = proxy(frontend, backend, cap).await;
            s3.borrow_mut().proxy_result = Some(match r {
                Ok(()) => "Ok".into(),
                Err(e) => e.to_string(),
            });
        });
        for c in 0..nc {
            let (fep, s3, n, shapes3) = (fep.clone(), s2.clone(), rounds2[c], shapes2.clone());
            if real_c2[c] {
                rt::task::spawn_local("client", async move {
                    if late_workers && s3.borrow().proxy_result.is_some() {
                        return world::park().await;
                    }
                    let mut req = ReqSocket::new();
                    if req.connect(&fep).await.is_err() {
                        s3.borrow_mut().viol.push(("harness", "client connect failed".into()));
                        return world::park().await;
                    }
                    for s in 0..n {
                        let q = tagged(c as u16, s, &shapes3[(c * 3 + s as usize) % shapes3.len()]);
                        if let Err(e) = req.send(to_zmq(&q)).await {
                            s3.borrow_mut().viol.push(("client_send_failed", format!("client {c} request {s}: {e}")));
                            return world::park().await;
                        }
                        match req.recv().await {
                            Ok(m) if from_zmq(&m) == q => {}
                            Ok(m) => {
                                s3.borrow_mut().viol.push(("client_got_wrong_reply", format!("real client {c} request {s}: reply {} expected {}", show_msg(&from_zmq(&m)), show_msg(&q))));
                                return world::park().await;
                            }
                            Err(e) => {
                                s3.borrow_mut().viol.push(("client_recv_failed", format!("client {c} request {s}: {e}")));
                                return world::park().await;
                            }
                        }
                    }
                    s3.borrow_mut().clients_done += 1;
                    world::park().await;
                    drop(req);
                });
            } else {
                rt::task::spawn_local("raw-client", async move {
                    let Ok(mut p) = RawPeer::connect(&fep) else { return };
                    s3.borrow_mut().front.push((c, p.conn.clone()));
                    if p.hello("REQ", None).await.is_err() {
                        return;
                    }
                    for s in 0..n {
                        let mut q = vec![vec![]];
                        q.extend(tagged(c as u16, s, &shapes3[(c * 3 + s as usize) % shapes3.len()]));
                        if p.send_msg(&q).await.is_err() {
                            return world::park().await;
                        }
                        if !p.wait_messages(s as usize + 1).await {
                            s3.borrow_mut().viol.push(("client_recv_failed", format!("scripted client {c}: connection ended before reply {s}")));
                            return world::park().await;
                        }
                    }
                    s3.borrow_mut().clients_done += 1;
                    world::park().await;
                    drop(p);
                });
            }
        }
        world::park().await;
    });
    let end = ctx.sim.run(600_000);
    if end == rt::RunEnd::Budget && !(late_workers && st.borrow().proxy_result.is_some()) {
        // (once the proxy has stopped and taken its sockets with it, a real client or worker that
        // still tries to connect retries for ever: that is connect(), not the proxy)
        ctx.violation("no_quiescence", "proxy world did not become quiescent".into());
    }
    if std::env::var_os("ZSIM_DEBUG").is_some() {
        for c in world::all_conns(ctx.sim) {
            for side in 0..2 {
                let p = rc::parse_stream(&c.tap_from(side));
                eprintln!("[c15] conn {} ({}) side {} wrote: {:?} partial={} err={:?}", c.id, c.label, side, p.items.iter().skip(1).map(|i| match &i.item { rc::Item::Message(m) => show_msg(m), rc::Item::Command { name, .. } => format!("CMD {}", String::from_utf8_lossy(name)), _ => "G".into() }).collect::<Vec<_>>(), p.partial, p.error);
            }
        }
    }
    let s = st.borrow();
    let stopped_late = late_workers && s.proxy_result.is_some();
    let had = !s.viol.is_empty() && !stopped_late;
    for (c, d) in s.viol.clone() {
        if stopped_late {
            // consequences of the proxy having stopped (its sockets are gone): not judged
            break;
        }
        if c == "harness" {
            ctx.harness_error(d);
        } else {
            ctx.violation(c, d);
        }
    }
    if late_workers && s.proxy_result.is_some() {
        // the proxy stopped on a backend without peers: nothing left to judge "while a proxy runs"
        ctx.probe("proxy_stopped_on_a_side_without_peers");
        ctx.nontrivial();
    } else if let Some(r) = &s.proxy_result {
        ctx.violation("proxy_ended", format!("proxy() returned ({r}) although no client or worker departed and every worker was admitted before the first request"));
    } else if s.clients_done != nc && !had && end == rt::RunEnd::Quiescent {
        ctx.violation("request_lost_in_proxy", format!("{} of {nc} clients completed their round trips; a request or reply was not forwarded", s.clients_done));
    }
    if late_workers && s.proxy_result.is_none() {
        ctx.probe("proxy_kept_running_without_workers");
    }
    if !had && s.proxy_result.is_none() {
        let total: u32 = rounds.iter().sum();
        // scripted clients: their connection carries exactly their own replies, in order, verbatim
        for (c, conn) in &s.front {
            let msgs = rc::parse_stream(&conn.tap_from(1)).messages();
            for (i, m) in msgs.iter().enumerate() {
                let mut e = vec![vec![]];
                e.extend(tagged(*c as u16, i as u32, &shapes[(c * 3 + i) % shapes.len()]));
                if *m != e {
                    ctx.violation("reply_not_verbatim_or_misrouted", format!("connection of scripted client {c}: message #{i} is {} expected {}", show_msg(m), show_msg(&e)));
                    break;
                }
            }
        }
        // scripted workers: every forwarded request is [identity, delimiter, payload] with the
        // payload verbatim; identities are constant per client
        let mut ids: std::collections::BTreeMap<u16, Vec<u8>> = Default::default();
        let mut seen: std::collections::BTreeSet<(u16, u32)> = Default::default();
        for conn in &s.back {
            for m in rc::parse_stream(&conn.tap_from(1)).messages() {
                let Some((c, q)) = tag_of(&m) else {
                    ctx.violation("forwarded_message_altered", format!("a worker received {}", show_msg(&m)));
                    continue;
                };
                let mut e = vec![vec![]];
                e.extend(tagged(c, q, &shapes[(c as usize * 3 + q as usize) % shapes.len()]));
                if m.len() < 2 || m[1..] != e[..] {
                    ctx.violation("forwarded_message_altered", format!("request ({c},{q}) reached a worker as {} expected identity + {}", show_msg(&m), show_msg(&e)));
                    continue;
                }
                match ids.get(&c) {
                    Some(id) if *id != m[0] => ctx.violation("identity_envelope_changed", format!("client {c} forwarded under two identities")),
                    None => {
                        ids.insert(c, m[0].clone());
                    }
                    _ => {}
                }
                if !seen.insert((c, q)) {
                    ctx.violation("forwarded_twice", format!("request ({c},{q}) was forwarded to the workers twice"));
                }
            }
        }
        // capture sink: one copy of every forwarded message (2 per round trip), each exactly once
        if let Some(sink) = &s.sink {
            let msgs = rc::parse_stream(&sink.tap_from(0)).messages();
            if s.clients_done == nc {
                let mut count: std::collections::BTreeMap<(u16, u32), u32> = Default::default();
                for m in &msgs {
                    if let Some(t) = tag_of(m) {
                        *count.entry(t).or_insert(0) += 1;
                    } else {
                        ctx.violation("capture_copy_altered", format!("the capture sink received {}", show_msg(m)));
                    }
                }
                let bad: Vec<_> = count.iter().filter(|(_, n)| **n != 2).collect();
                if msgs.len() as u32 != 2 * total || !bad.is_empty() {
                    ctx.violation("capture_copies_wrong", format!("the capture sink received {} messages for {} forwarded ones; per round trip counts differing from 2: {:?}", msgs.len(), 2 * total, bad.iter().take(4).collect::<Vec<_>>()));
                }
                // per client, copies appear in forwarding order: request s before request s+1
                let mut last: std::collections::BTreeMap<u16, u32> = Default::default();
                for m in &msgs {
                    if let Some((c, q)) = tag_of(m) {
                        let l = last.entry(c).or_insert(0);
                        if q < *l {
                            ctx.violation("capture_order_wrong", format!("capture sink saw client {c} message {q} after {}", *l));
                        }
                        *l = q;
                    }
                }
                ctx.probe("capture_judged");
            }
        }
        ctx.nontrivial();
    }
    if ctx.want_sample {
        ctx.out.sample = Some(format!("proxy: {nc} clients (real {:?}, rounds {:?}), {nw} workers (real {:?}), capture {}", real_c, rounds, real_w, ["none", "PUSH", "PUB", "DEALER"][capture]));
    }
    drop(s);
    ctx.check_panics();
}


/// The same proxy with DEALER traffic: no delimiter, any frame count including a single frame
/// (which reaches the ROUTER side as the two-frame message [identity, content]), clients that
/// pipeline instead of running in lock-step, DEALER echo workers.
fn proxy_dealer_world(ctx: &mut Ctx) {
    // one case in twelve: client 0 sends a long run (130..330 messages) back to back, so that far
    // more messages are ready on one side of the proxy than any batch size it may use internally.
    // Those messages are small and the pipes unbounded: a long run of large messages fills the
    // pipes in both directions and ends in the mutual back-pressure deadlock of proxy() (11.2),
    // which is flow control, not forwarding fidelity
    let long_run = ctx.plan(12) == 1;
    world::swarm(ctx, SwarmOpts { small_caps: false, tiny_chunks: !long_run, ..Default::default() });
    if long_run {
        let mut p = ctx.sim.rt.net.borrow().profile;
        p.cap = 1 << 26;
        ctx.sim.rt.net.borrow_mut().profile = p;
    }
    let nc = 1 + ctx.plan(3) as usize;
    let nw = 1 + ctx.plan(2) as usize;
    let real_c: Vec<bool> = (0..nc).map(|_| ctx.plan_bool()).collect();
    let real_w: Vec<bool> = (0..nw).map(|_| ctx.plan_bool()).collect();
    let counts: Vec<u32> = (0..nc).map(|c| if long_run && c == 0 { 130 + ctx.plan(200) as u32 } else { 1 + ctx.plan(5) as u32 }).collect();
    let gaps: Vec<u32> = (0..nc).map(|c| if long_run && c == 0 { 0 } else { ctx.plan(4) as u32 }).collect();
    let capture = (ctx.idx % 4) as usize;
    let shapes: Vec<Vec<usize>> = (0..8).map(|_| (0..1 + ctx.plan(3)).map(|_| if long_run { ctx.plan_pick(&[0usize, 1, 20]) } else { ctx.plan_pick(&[0usize, 0, 1, 20, 255, 256, 3000]) }).collect()).collect();
    let st = Rc::new(RefCell::new(St::default()));
    let s2 = st.clone();
    let (real_c2, real_w2, counts2, shapes2) = (real_c.clone(), real_w.clone(), counts.clone(), shapes.clone());
    rt::task::spawn_local("main", async move {
        let mut frontend = RouterSocket::new();
        let mut backend = DealerSocket::new();
        let fep = frontend.bind("tcp://127.0.0.1:0").await.expect("bind").to_string();
        let bep = backend.bind("tcp://127.0.0.1:0").await.expect("bind").to_string();
        let mut cap: Option<Box<dyn CaptureSocket>> = None;
        if capture != 0 {
            let (l, lep) = RawListener::bind("tcp://127.0.0.1:0").expect("sink listener");
            let s3 = s2.clone();
            let sink_type = ["", "PULL", "SUB", "ROUTER"][capture];
            let acc = rt::task::spawn_local("sink", async move {
                if let Ok(mut p) = l.accept().await {
                    s3.borrow_mut().sink = Some(p.conn.clone());
                    let _ = p.hello(sink_type, None).await;
                    if sink_type == "SUB" {
                        let _ = p.send_msg(&[vec![1]]).await;
                    }
                    p.conn.set_io(0, |io| io.wyield_pm = 0);
                    p.conn.set_cap(0, 1 << 40);
                    s3.borrow_mut().keep.push(p);
                }
            });
            match capture {
                1 => {
                    let mut s = PushSocket::new();
                    s.connect(&lep).await.expect("capture connect");
                    cap = Some(Box::new(s));
                }
                2 => {
                    let mut s = PubSocket::new();
                    s.connect(&lep).await.expect("capture connect");
                    cap = Some(Box::new(s));
                }
                _ => {
                    let mut s = DealerSocket::new();
                    s.connect(&lep).await.expect("capture connect");
                    cap = Some(Box::new(s));
                }
            }
            let _ = acc.await;
            rt::task::idle().await;
        }
        for w in 0..nw {
            let (bep, s3) = (bep.clone(), s2.clone());
            if real_w2[w] {
                rt::task::spawn_local("worker", async move {
                    let mut d = DealerSocket::new();
                    if d.connect(&bep).await.is_err() {
                        s3.borrow_mut().viol.push(("harness", "worker connect failed".into()));
                        return world::park().await;
                    }
                    loop {
                        match d.recv().await {
                            Ok(m) => {
                                if d.send(m).await.is_err() {
                                    break;
                                }
                            }
                            Err(_) => break,
                        }
                    }
                    world::park().await;
                    drop(d);
                });
            } else {
                rt::task::spawn_local("raw-worker", async move {
                    let Ok(mut p) = RawPeer::connect(&bep) else { return };
                    s3.borrow_mut().back.push(p.conn.clone());
                    if p.hello("DEALER", None).await.is_err() {
                        return;
                    }
                    let mut answered = 0usize;
                    loop {
                        if !p.wait_messages(answered + 1).await {
                            break;
                        }
                        let msgs = p.inbound().messages();
                        while answered < msgs.len() {
                            if p.send_msg(&msgs[answered]).await.is_err() {
                                return world::park().await;
                            }
                            answered += 1;
                        }
                    }
                    world::park().await;
                    drop(p);
                });
            }
        }
        for _ in 0..3 {
            rt::task::idle().await;
        }
        let s3 = s2.clone();
        rt::task::spawn_local("proxy", async move {
            let r = proxy(frontend, backend, cap).await;
            s3.borrow_mut().proxy_result = Some(match r {
                Ok(()) => "Ok".into(),
                Err(e) => e.to_string(),
            });
        });
        for c in 0..nc {
            let (fep, s3, n, shapes3, gap) = (fep.clone(), s2.clone(), counts2[c], shapes2.clone(), gaps[c]);
            let msg_of = move |s: u32| tagged(c as u16, s, &shapes3[(c * 3 + s as usize) % shapes3.len()]);
            if real_c2[c] {
                rt::task::spawn_local("client", async move {
                    let mut d = DealerSocket::new();
                    if d.connect(&fep).await.is_err() {
                        s3.borrow_mut().viol.push(("harness", "client connect failed".into()));
                        return world::park().await;
                    }
                    for s in 0..n {
                        if let Err(e) = d.send(to_zmq(&msg_of(s))).await {
                            s3.borrow_mut().viol.push(("client_send_failed", format!("client {c} message {s}: {e}")));
                            return world::park().await;
                        }
                        for _ in 0..gap {
                            rt::task::yield_now().await;
                        }
                    }
                    let mut got: Vec<Vec<Vec<u8>>> = Vec::new();
                    while (got.len() as u32) < n {
                        match d.recv().await {
                            Ok(m) => got.push(from_zmq(&m)),
                            Err(e) => {
                                s3.borrow_mut().viol.push(("client_recv_failed", format!("client {c}: {e}")));
                                return world::park().await;
                            }
                        }
                    }
                    s3.borrow_mut().real_got.push((c, got));
                    s3.borrow_mut().clients_done += 1;
                    world::park().await;
                    drop(d);
                });
            } else {
                rt::task::spawn_local("raw-client", async move {
                    let Ok(mut p) = RawPeer::connect(&fep) else { return };
                    s3.borrow_mut().front.push((c, p.conn.clone()));
                    if p.hello("DEALER", None).await.is_err() {
                        return;
                    }
                    for s in 0..n {
                        if p.send_msg(&msg_of(s)).await.is_err() {
                            return world::park().await;
                        }
                        for _ in 0..gap {
                            rt::task::yield_now().await;
                        }
                    }
                    if !p.wait_messages(n as usize).await {
                        s3.borrow_mut().viol.push(("client_recv_failed", format!("scripted client {c}: connection ended before all {n} replies")));
                        return world::park().await;
                    }
                    s3.borrow_mut().clients_done += 1;
                    world::park().await;
                    drop(p);
                });
            }
        }
        world::park().await;
    });
    let end = ctx.sim.run(600_000);
    if end == rt::RunEnd::Budget {
        ctx.violation("no_quiescence", "proxy world did not become quiescent".into());
    }
    let s = st.borrow();
    let had = !s.viol.is_empty();
    for (c, d) in s.viol.clone() {
        if c == "harness" {
            ctx.harness_error(d);
        } else {
            ctx.violation(c, d);
        }
    }
    let expect_of = |c: usize, q: u32| tagged(c as u16, q, &shapes[(c * 3 + q as usize) % shapes.len()]);
    if let Some(r) = &s.proxy_result {
        ctx.violation("proxy_ended", format!("proxy() returned ({r}) although no client or worker departed and every worker was admitted before the first message"));
    } else if s.clients_done != nc && !had && end == rt::RunEnd::Quiescent {
        ctx.violation("message_lost_in_proxy", format!("{} of {nc} DEALER clients got all their messages echoed back through the proxy; a message was not forwarded in one of the directions", s.clients_done));
    }
    if !had && s.proxy_result.is_none() {
        let total: u32 = counts.iter().sum();
        // what came back to each client: its own messages, verbatim, each exactly once (in order
        // when a single worker keeps the per-direction order observable)
        let mut returned: Vec<(usize, Vec<Vec<Vec<u8>>>)> = s.real_got.clone();
        for (c, conn) in &s.front {
            returned.push((*c, rc::parse_stream(&conn.tap_from(1)).messages()));
        }
        for (c, msgs) in &returned {
            let mut seen: std::collections::BTreeSet<u32> = Default::default();
            let mut last: Option<u32> = None;
            for m in msgs {
                match tag_of(m) {
                    Some((o, q)) if o as usize == *c && q < counts[*c] && *m == expect_of(*c, q) => {
                        if !seen.insert(q) {
                            ctx.violation("returned_twice", format!("client {c} got its message {q} back twice"));
                        }
                        if nw == 1 && last.map(|l| q < l).unwrap_or(false) {
                            ctx.violation("order_not_preserved", format!("client {c} (single worker): message {q} came back after {}", last.unwrap()));
                        }
                        last = Some(q);
                    }
                    _ => {
                        ctx.violation("reply_not_verbatim_or_misrouted", format!("client {c} received {}, which is none of its own messages verbatim", show_msg(m)));
                        break;
                    }
                }
            }
        }
        // scripted workers: [identity, payload verbatim]; identity constant per client; each once;
        // per (worker, client) in sending order
        let mut ids: std::collections::BTreeMap<u16, Vec<u8>> = Default::default();
        let mut seen: std::collections::BTreeSet<(u16, u32)> = Default::default();
        for conn in &s.back {
            let mut last: std::collections::BTreeMap<u16, u32> = Default::default();
            for m in rc::parse_stream(&conn.tap_from(1)).messages() {
                let Some((c, q)) = tag_of(&m) else {
                    ctx.violation("forwarded_message_altered", format!("a worker received {}", show_msg(&m)));
                    continue;
                };
                if (c as usize) >= nc || m.len() < 2 || m[1..] != expect_of(c as usize, q)[..] {
                    ctx.violation("forwarded_message_altered", format!("message ({c},{q}) reached a worker as {} expected identity + {}", show_msg(&m), show_msg(&expect_of((c as usize).min(nc - 1), q))));
                    continue;
                }
                match ids.get(&c) {
                    Some(id) if *id != m[0] => ctx.violation("identity_envelope_changed", format!("client {c} forwarded under two identities")),
                    None => {
                        ids.insert(c, m[0].clone());
                    }
                    _ => {}
                }
                if !seen.insert((c, q)) {
                    ctx.violation("forwarded_twice", format!("message ({c},{q}) was forwarded to the workers twice"));
                }
                if let Some(l) = last.get(&c) {
                    if q < *l {
                        ctx.violation("order_not_preserved", format!("a worker received client {c}'s message {q} after {l}"));
                    }
                }
                last.insert(c, q);
            }
        }
        if let Some(sink) = &s.sink {
            let msgs = rc::parse_stream(&sink.tap_from(0)).messages();
            if s.clients_done == nc {
                let mut count: std::collections::BTreeMap<(u16, u32), u32> = Default::default();
                for m in &msgs {
                    if let Some(t) = tag_of(m) {
                        *count.entry(t).or_insert(0) += 1;
                    } else {
                        ctx.violation("capture_copy_altered", format!("the capture sink received {}", show_msg(m)));
                    }
                }
                let bad: Vec<_> = count.iter().filter(|(_, n)| **n != 2).collect();
                if msgs.len() as u32 != 2 * total || !bad.is_empty() {
                    ctx.violation("capture_copies_wrong", format!("the capture sink received {} messages for {} forwarded ones; per message counts differing from 2: {:?}", msgs.len(), 2 * total, bad.iter().take(4).collect::<Vec<_>>()));
                }
                ctx.probe("capture_judged");
            }
        }
        if shapes.iter().any(|sh| sh.len() == 1) {
            ctx.probe("single_frame_message_forwarded");
        }
        if long_run {
            ctx.probe("long_run_forwarded");
        }
        ctx.nontrivial();
    }
    if ctx.want_sample {
        ctx.out.sample = Some(format!("proxy (DEALER traffic): {nc} clients (real {:?}, messages {:?}), {nw} workers (real {:?}), capture {}", real_c, counts, real_w, ["none", "PUSH", "PUB", "DEALER"][capture]));
    }
    drop(s);
    ctx.check_panics();
}

/// A front-side client with an announced identity joins a second time under it (a restart, a
/// fail-over twin) while the proxy is writing a large reply to its first connection, which is slow
/// to read. Once that reply is through, what the client sends on its new connection comes back on
/// its new connection: the proxy forwards every reply to the connection the request came from.
fn proxy_client_rejoins(ctx: &mut Ctx) {
    world::swarm(ctx, SwarmOpts { small_caps: false, tiny_chunks: false, ..Default::default() });
    let big_len = ctx.plan_pick(&[20_000usize, 70_000, 200_000]);
    let cap = ctx.plan_pick(&[256usize, 1_000, 9_000]);
    let old_leaves = ctx.plan_bool();
    let viol: Rc<RefCell<Vec<(&'static str, String)>>> = Rc::new(RefCell::new(Vec::new()));
    let done = Rc::new(RefCell::new(false));
    let proxy_result: Rc<RefCell<Option<String>>> = Rc::new(RefCell::new(None));
    let (vl, dn, pr) = (viol.clone(), done.clone(), proxy_result.clone());
    rt::task::spawn_local("main", async move {
        let mut frontend = RouterSocket::new();
        let mut backend = DealerSocket::new();
        let fep = frontend.bind("tcp://127.0.0.1:0").await.expect("bind").to_string();
        let bep = backend.bind("tcp://127.0.0.1:0").await.expect("bind").to_string();
        rt::task::spawn_local("worker", async move {
            let mut d = DealerSocket::new();
            if d.connect(&bep).await.is_err() {
                return world::park().await;
            }
            while let Ok(m) = d.recv().await {
                if d.send(m).await.is_err() {
                    break;
                }
            }
            world::park().await;
            drop(d);
        });
        rt::task::idle().await;
        let pr2 = pr.clone();
        rt::task::spawn_local("proxy", async move {
            let r = proxy(frontend, backend, None).await;
            *pr2.borrow_mut() = Some(match r {
                Ok(()) => "Ok".to_string(),
                Err(e) => e.to_string(),
            });
        });
        // first connection: one small round trip, then a large one it is slow to read
        let mut x1 = RawPeer::connect(&fep).expect("connect");
        let _ = x1.hello("DEALER", Some(b"client-x")).await;
        let _ = x1.send_msg(&tagged(1, 0, &[3])).await;
        rt::task::idle().await;
        if x1.inbound().messages().len() != 1 {
            // (the ordinary worlds judge plain forwarding)
            *dn.borrow_mut() = true;
            return world::park().await;
        }
        x1.conn.set_auto_drain(1, false);
        x1.conn.set_cap(1, cap);
        let _ = x1.send_msg(&tagged(1, 1, &[big_len])).await;
        rt::task::idle().await;
        // the client joins again under its identity while that reply is stuck
        let mut x2 = RawPeer::connect(&fep).expect("connect");
        let _ = x2.hello("DEALER", Some(b"client-x")).await;
        rt::task::idle().await;
        rt::count("probe_proxy_client_rejoined_while_its_reply_was_blocked");
        x1.conn.set_cap(1, 1 << 40);
        x1.conn.set_auto_drain(1, true);
        rt::task::idle().await;
        let old_conn = x1.conn.clone();
        let old_before = x1.inbound().messages().len();
        let mut x1 = Some(x1);
        if old_leaves {
            x1.take().unwrap().close();
            rt::task::idle().await;
        }
        // a request on the new connection
        let ping = tagged(2, 0, &[4]);
        let before = x2.inbound().messages().len();
        let _ = x2.send_msg(&ping).await;
        rt::task::idle().await;
        let got = x2.inbound().messages();
        let old_after = rc::parse_stream(&old_conn.tap_from(1)).messages().len();
        if got.len() != before + 1 || got.last() != Some(&ping) || old_after != old_before {
            vl.borrow_mut().push(("reply_not_on_the_connection_that_asked", format!("a client joined again under its identity while the proxy was writing a reply of {big_len} bytes to its first connection (which accepted {cap} bytes at the time); the reply went through, {}; a message then sent on the new connection came back on the new connection {} time(s) and on the old one {} time(s) (proxy: {:?})", if old_leaves { "the first connection was closed" } else { "both connections stay open" }, got.len() - before, old_after - old_before, pr.borrow())));
        }
        *dn.borrow_mut() = true;
        world::park().await;
        drop(x1);
        drop(x2);
    });
    let end = ctx.sim.run(600_000);
    if end == rt::RunEnd::Budget {
        ctx.violation("no_quiescence", "proxy with a client that rejoins: no quiescence".into());
    }
    ctx.check_panics();
    for (c, d) in viol.borrow().clone() {
        ctx.violation(c, d);
    }
    if *done.borrow() {
        ctx.nontrivial();
    } else if end == rt::RunEnd::Quiescent && ctx.sim.rt.panics.borrow().is_empty() && viol.borrow().is_empty() {
        ctx.violation("stuck", "proxy with a client that rejoins: the scenario never completed".into());
    }
    if ctx.want_sample {
        ctx.out.sample = Some(format!("ROUTER | proxy | DEALER with an echo worker; client 'client-x' rejoins while a reply of {big_len} bytes to its first connection is blocked"));
    }
}

pub fn def() -> PropDef {
    PropDef {
        id: "C15",
        level: "exploration",
        rule: "one case = REQ clients (1..3, real sockets or scripted) - ROUTER | proxy() | DEALER - REP workers (1..3, real or scripted echo), capture socket kind walked by the case index {none, PUSH, PUB, DEALER} connected to a scripted sink; 1..4 lock-step round trips per client with drawn payload shapes; transport, schedule and select! order drawn per case; every worker admitted before the first request (one case in ten: workers arrive only after the first requests - the proxy may stop with the error, but if it keeps running nothing may be lost); oracles on connection taps; proxy_dealer_world: the same proxy with 1..3 DEALER clients (real or scripted) that pipeline 1..5 (one case in twelve: 130..330, back to back) delimiter-less messages of 1..3 frames (a single frame becomes the two-frame [identity, content] on the ROUTER side) to 1..2 DEALER echo workers: every message comes back to its sender verbatim and exactly once (in order with one worker), reaches the workers as identity + verbatim frames in per-client order, capture gets one copy per forwarded message; proxy_client_rejoins: one DEALER echo worker, one scripted client with an announced identity that joins a second time under it while a reply of 20..200 kB to its first connection (accepting 256..9000 bytes) is blocked; after the reply is through, a message sent on the new connection must come back on the new connection only; non-trivial = judgement reached with proxy still running; distinct = distinct (plan, schedule, transport+select) hashes",
        assumptions: &["clients and workers do not depart during a run (proxy() returns on the first send error, and the statement speaks about the time while a proxy runs)", "the capture sink accepts every write"],
        strata: vec![
            Stratum { name: "proxy_world", quick: 60_000, thorough: (1_000_000) * 2, exhaustive: (false, false), run: proxy_world, what: "REQ - ROUTER/proxy/DEALER - REP chain with capture, verbatim forwarding on taps" },
            Stratum { name: "proxy_client_rejoins", quick: 6_000, thorough: 300_000, exhaustive: (false, false), run: proxy_client_rejoins, what: "a front-side client with an announced identity joins again under it while a large reply to its slow first connection is being written; afterwards a message on the new connection comes back on the new connection" },
            Stratum { name: "proxy_dealer_world", quick: 40_000, thorough: 1_500_000, exhaustive: (false, false), run: proxy_dealer_world, what: "DEALER clients pipelining delimiter-less messages (single-frame included) through ROUTER/proxy/DEALER to DEALER echo workers" },
        ],
    }
}
