//! C16 — a failed or closed peer is isolated, forgotten, and its connection released.
use crate::fw::{Ctx, PropDef, Stratum};
use crate::refcodec as rc;
use crate::socks::{AnySock, Kind, ALL_KINDS};
use crate::world::{self, from_zmq, tag_of, tagged, to_zmq, RawPeer, SwarmOpts};
use std::cell::RefCell;
use std::rc::Rc;
use std::sync::Arc;
use zmq_simrt as rt;

#[derive(Clone, Copy, Debug, PartialEq)]
pub enum Fault {
    Close,
    Reset,
    ReadError,
    WriteError,
}
const FAULTS: [Fault; 4] = [Fault::Close, Fault::Reset, Fault::ReadError, Fault::WriteError];

/// the victim's byte stream: greeting, READY, a 2-frame message (short size + long size), a
/// 1-frame message; every byte offset of it is a cut position
pub fn victim_stream(kind: Kind) -> Vec<u8> {
    let mut s = rc::greeting_default();
    s.extend(rc::ready_for(kind.peers()[0], Some(b"victim")));
    if matches!(kind, Kind::Pub | Kind::Xpub) {
        // a subscriber: subscribe to everything (long-size form exercised by a long topic), then
        // one more subscription
        s.extend(rc::encode_msg(&[vec![1]]));
        let mut t = vec![1u8];
        t.extend(std::iter::repeat(b'z').take(290));
        s.extend(rc::encode_msg(&[t]));
        return s;
    }
    let env: Vec<Vec<u8>> = if matches!(kind, Kind::Rep | Kind::Req) { vec![vec![]] } else { vec![] };
    let mut m1 = env.clone();
    m1.extend(tagged(50, 0, &[2, 292]));
    s.extend(rc::encode_msg(&m1));
    let mut m2 = env;
    m2.extend(tagged(50, 1, &[1]));
    s.extend(rc::encode_msg(&m2));
    s
}
pub fn stream_len(kind: Kind) -> usize {
    victim_stream(kind).len()
}

fn position_name(kind: Kind, off: usize) -> &'static str {
    let s = victim_stream(kind);
    let p = rc::parse_stream(&s);
    if off == 0 {
        return "before_first_byte";
    }
    if off < 64 {
        return "inside_greeting";
    }
    if off == 64 {
        return "after_greeting";
    }
    let r = &p.items[1];
    if off < r.end {
        return "inside_ready";
    }
    if off == r.end {
        return "after_handshake";
    }
    for it in p.items.iter().skip(2) {
        if off == it.end {
            return "between_messages";
        }
        if off > it.start && off < it.end {
            // finer: flags / length / body / between frames
            let mut pos = it.start;
            if let rc::Item::Message(frames) = &it.item {
                for f in frames {
                    let hdr = if f.len() > 255 { 9 } else { 2 };
                    if off == pos + 1 {
                        return "after_flags_byte";
                    }
                    if off > pos + 1 && off < pos + hdr {
                        return "inside_8byte_length";
                    }
                    if off == pos + hdr {
                        return "after_length";
                    }
                    if off > pos + hdr && off < pos + hdr + f.len() {
                        return "inside_body";
                    }
                    pos += hdr + f.len();
                    if off == pos {
                        return "between_frames";
                    }
                }
            }
            return "inside_message";
        }
    }
    "end_of_stream"
}

#[derive(Default)]
struct Out {
    done: bool,
    errors_total: u32,
    errors_after_observation: u32,
    bystander_sent: Vec<u32>,
    bystander_got: Vec<u32>,
    victim_got: u32,
    victim_conn: Option<Arc<rt::net::Conn>>,
    bystander_conns: Vec<Arc<rt::net::Conn>>,
    victim_tap_at_observation: usize,
    fired_at_observation: bool,
    victim_tap_final: usize,
    sends_after: u32,
    send_errors_after: u32,
    viol: Vec<(&'static str, String)>,
    keep: Vec<RawPeer>,
    keepl: Vec<crate::world::RawListener>,
    lib_side: usize,
    /// SUB: bystanders that were not sent a subscription made right after the victim's fault
    late_sub_untold: Vec<usize>,
}

/// scripted REP bystanders answer every request they have received and not yet answered
async fn answer(bys: &mut [RawPeer], replied: &mut [usize]) {
    for (i, p) in bys.iter_mut().enumerate() {
        let n = p.inbound().messages().len();
        while replied[i] < n {
            let _ = p.send_msg(&[vec![], b"ok".to_vec()]).await;
            replied[i] += 1;
        }
    }
}

async fn drain(sock: &mut AnySock, kind: Kind, o: &Rc<RefCell<Out>>, after_obs: bool) {
    if !kind.has_recv() || kind == Kind::Req {
        rt::task::idle().await;
        return;
    }
    let mut guard = 0;
    loop {
        guard += 1;
        if guard > 60 {
            break;
        }
        match rt::future::or_idle(sock.recv()).await {
            Some(Ok(m)) => {
                let f = from_zmq(&m);
                match tag_of(&f) {
                    Some((50, _)) => o.borrow_mut().victim_got += 1,
                    Some((b, _)) if (b as usize) < o.borrow().bystander_got.len() => o.borrow_mut().bystander_got[b as usize] += 1,
                    _ => {}
                }
                if kind == Kind::Rep {
                    let _ = sock.send(to_zmq(&[b"r".to_vec()])).await;
                }
            }
            Some(Err(_)) => {
                let mut ob = o.borrow_mut();
                ob.errors_total += 1;
                if after_obs {
                    ob.errors_after_observation += 1;
                }
                drop(ob);
                rt::task::yield_now().await;
            }
            None => break,
        }
    }
}

fn cut_world(ctx: &mut Ctx) {
    cut_impl(ctx, false)
}
/// the same grid with the victim on the far end of a connection the socket opened itself
fn cut_world_connect(ctx: &mut Ctx) {
    cut_impl(ctx, true)
}

fn cut_impl(ctx: &mut Ctx, connecting: bool) {
    let kind = ALL_KINDS[(ctx.idx % 9) as usize];
    let fault = FAULTS[((ctx.idx / 9) % 4) as usize];
    let len = stream_len(kind);
    let off = ((ctx.idx / 36) % (len as u64 + 1)) as usize;
    let disturbed = ctx.idx >= 36 * (len as u64 + 1);
    if disturbed {
        world::swarm(ctx, SwarmOpts::default());
    } else {
        world::plain(ctx);
    }
    let nby = 1 + ctx.plan(3) as usize;
    // a publisher that only publishes, and a lot: it learns of the dead subscriber on its send
    // path (the write buffer has to fill up for that), not from a read
    let heavy = disturbed && !connecting && matches!(kind, Kind::Pub | Kind::Xpub) && ctx.plan_bool();
    let out = Rc::new(RefCell::new(Out::default()));
    {
        let mut o = out.borrow_mut();
        o.bystander_sent = vec![0; nby];
        o.bystander_got = vec![0; nby];
    }
    let o2 = out.clone();
    let peer_type = kind.peers()[0];
    rt::task::spawn_local("app", async move {
        let mut sock = AnySock::new(kind, None);
        let ep = sock.bind("tcp://127.0.0.1:0").await.expect("bind").to_string();
        let mut bys: Vec<RawPeer> = Vec::new();
        for b in 0..nby {
            let mut p = RawPeer::connect(&ep).expect("connect");
            p.hello(peer_type, Some(format!("by{b}").as_bytes())).await.expect("hello");
            if matches!(kind, Kind::Pub | Kind::Xpub) {
                p.send_msg(&[vec![1]]).await.expect("subscribe");
                p.conn.set_io(1, |io| io.wyield_pm = 0);
                p.conn.set_cap(1, 1 << 40);
            }
            o2.borrow_mut().bystander_conns.push(p.conn.clone());
            bys.push(p);
        }
        let mut replied = vec![0usize; nby];
        let bmsg = |b: usize, n: u32| -> Vec<Vec<u8>> {
            let mut m = if matches!(kind, Kind::Rep | Kind::Req) { vec![vec![]] } else { vec![] };
            m.extend(tagged(b as u16, n, &[3]));
            m
        };
        // bystander traffic, round 0
        if kind.has_recv() && kind != Kind::Req {
            for (b, p) in bys.iter_mut().enumerate() {
                let _ = p.send_msg(&bmsg(b, 0)).await;
                o2.borrow_mut().bystander_sent[b] += 1;
            }
        }
        // the victim: its stream up to the cut, then the fault
        let s = victim_stream(kind);
        let mut victim;
        if connecting {
            // the socket connects out; the victim accepts, sends its stream up to the cut at once
            let (l, lep) = crate::world::RawListener::bind("tcp://127.0.0.1:0").expect("listen");
            let s2 = s.clone();
            let acc = rt::task::spawn_local("victim-acceptor", async move {
                let mut p = l.accept().await.expect("accept");
                let _ = p.send(&s2[..off]).await;
                (p, l)
            });
            // connect() returns once the handshake has completed or failed; with a cut inside the
            // handshake it only returns when the fault lands, so it runs beside the fault
            let vic = rt::future::or_idle(sock.connect(&lep)).await;
            let _ = vic;
            let (p, l) = acc.await.expect("acceptor");
            o2.borrow_mut().keepl.push(l);
            victim = p;
            o2.borrow_mut().victim_conn = Some(victim.conn.clone());
        } else {
            victim = RawPeer::connect(&ep).expect("connect");
            o2.borrow_mut().victim_conn = Some(victim.conn.clone());
            if matches!(kind, Kind::Pub | Kind::Xpub) {
                victim.conn.set_io(1, |io| io.wyield_pm = 0);
            }
            let _ = victim.send(&s[..off]).await;
        }
        let lib_side = 1 - victim.side;
        // let the socket consume what was sent (handshake, messages) before the fault lands,
        // in half of the cases; in the other half the fault races with the consumption
        if (off / 3) % 2 == 0 {
            drain(&mut sock, kind, &o2, false).await;
        }
        let vconn = victim.conn.clone();
        match fault {
            Fault::Close => victim.close(),
            Fault::Reset => {
                victim.reset();
                o2.borrow_mut().keep.push(victim);
            }
            Fault::ReadError => {
                vconn.inject_read_error(1 - lib_side, std::io::ErrorKind::ConnectionAborted);
                o2.borrow_mut().keep.push(victim);
            }
            Fault::WriteError => {
                vconn.inject_write_error(lib_side, std::io::ErrorKind::ConnectionAborted);
                o2.borrow_mut().keep.push(victim);
            }
        }
        // SUB: a subscription made right after the fault, before the socket has observed anything,
        // goes to every other publisher (and one made after the observation as well)
        let late_sub = disturbed && kind == Kind::Sub;
        if late_sub {
            let _ = sock.subscribe("late-1").await;
            rt::count("probe_subscribed_right_after_the_fault");
        }
        // the socket gets to observe the end: receive until idle; sending kinds try to send
        if heavy {
            rt::count("probe_publishing_heavily_right_after_the_fault");
        } else {
            drain(&mut sock, kind, &o2, false).await;
        }
        if kind.has_send() {
            for n in 0..(nby as u32 + 2) {
                let body = tagged(90, n, &[if heavy { 70_000 } else { 2 }]);
                let msg = if kind == Kind::Router { vec![b"victim".to_vec(), body[0].clone()] } else { body };
                match kind {
                    Kind::Rep => {}
                    Kind::Req => {
                        if sock.send(to_zmq(&msg)).await.is_ok() {
                            // a live bystander answers; the victim does not
                            answer(&mut bys, &mut replied).await;
                            let _ = rt::future::or_idle(sock.recv()).await;
                        }
                    }
                    _ => {
                        let _ = sock.send(to_zmq(&msg)).await;
                    }
                }
            }
            drain(&mut sock, kind, &o2, false).await;
        }
        rt::task::idle().await;
        // ---- observation point: from here on the victim must be forgotten --------------------
        o2.borrow_mut().victim_tap_at_observation = vconn.tap_len_from(lib_side);
        o2.borrow_mut().lib_side = lib_side;
        o2.borrow_mut().fired_at_observation = match fault {
            Fault::ReadError => !vconn.pending_faults(1 - lib_side).0,
            Fault::WriteError => !vconn.pending_faults(lib_side).1,
            _ => true,
        };
        // bystander traffic, round 1, and further receives: no more errors may surface
        if kind.has_recv() && kind != Kind::Req {
            for round in 1..3u32 {
                for (b, p) in bys.iter_mut().enumerate() {
                    let _ = p.send_msg(&bmsg(b, round)).await;
                    o2.borrow_mut().bystander_sent[b] += 1;
                }
                drain(&mut sock, kind, &o2, true).await;
            }
        }
        // further sends: none may be routed to the victim
        if kind.has_send() && kind != Kind::Rep {
            for n in 0..(2 * nby as u32 + 2) {
                let body = tagged(91, n, &[2]);
                let msg = if kind == Kind::Router { vec![b"victim".to_vec(), body[0].clone()] } else { body };
                let r = sock.send(to_zmq(&msg)).await;
                let mut ob = o2.borrow_mut();
                ob.sends_after += 1;
                // a refusal because a request is outstanding / nobody is connected is not a
                // failure on the dead peer
                if matches!(&r, Err(e) if !matches!(e, zeromq::ZmqError::ReturnToSender { .. })) {
                    ob.send_errors_after += 1;
                }
                drop(ob);
                if kind == Kind::Req && r.is_ok() {
                    answer(&mut bys, &mut replied).await;
                    let _ = rt::future::or_idle(sock.recv()).await;
                }
            }
        }
        if late_sub {
            let _ = sock.subscribe("late-2").await;
        }
        rt::task::idle().await;
        if late_sub {
            for (b, p) in bys.iter().enumerate() {
                let msgs = p.inbound().messages();
                for t in [&b"late-1"[..], b"late-2"] {
                    let mut want = vec![1u8];
                    want.extend_from_slice(t);
                    if !msgs.iter().any(|m| m.len() == 1 && m[0] == want) {
                        o2.borrow_mut().late_sub_untold.push(b);
                    }
                }
            }
        }
        o2.borrow_mut().victim_tap_final = vconn.tap_len_from(lib_side);
        o2.borrow_mut().done = true;
        world::park().await;
        drop(sock);
        drop(bys);
    });
    let end = ctx.sim.run(600_000);
    let pos = position_name(kind, off);
    let tag = format!("{} with {} bystander(s); victim{} cut {} (offset {off} of {len}) by {:?}", kind.name(), nby, if connecting { " (connected to by the socket)" } else { "" }, pos, fault);
    let o = out.borrow();
    if std::env::var_os("ZSIM_DEBUG").is_some() {
        if let Some(v) = &o.victim_conn {
            for d in 0..2 {
                let dir = v.dir(d);
                eprintln!("[c16] dir {d}: tap {} consumed {} reset {} w_closed {} r_closed {} reader_parked {} err_delivered {:?} eof {:?} read_calls {} write_calls {}", dir.tap.len(), dir.consumed, dir.reset, dir.w_closed, dir.r_closed, dir.reader_parked(), dir.err_delivered, dir.eof_delivered, dir.read_calls, dir.write_calls);
            }
            eprintln!("[c16] errors_total {} victim_got {} lib_side {} sends_after {} send_errors_after {}", o.errors_total, o.victim_got, o.lib_side, o.sends_after, o.send_errors_after);
        }
    }
    if end == rt::RunEnd::Budget {
        ctx.violation(&format!("no_quiescence:{}:{:?}", kind.name(), fault), format!("{tag}: the socket spins (no quiescence within the step budget)"));
    }
    ctx.check_panics();
    if o.done {
        // others unaffected
        if kind.has_recv() && kind != Kind::Req {
            for b in 0..o.bystander_sent.len() {
                if o.bystander_got[b] != o.bystander_sent[b] {
                    ctx.violation(&format!("others_affected:{}:{:?}", kind.name(), fault), format!("{tag}: bystander {b} had {} of its {} messages delivered ({} errors returned)", o.bystander_got[b], o.bystander_sent[b], o.errors_total));
                    break;
                }
            }
        }
        if let Some(b) = o.late_sub_untold.first() {
            ctx.violation(&format!("others_affected:{}:{:?}", kind.name(), fault), format!("{tag}: the application subscribed right after the victim's connection ended and once more later; bystander {b}, whose connection is healthy, was not sent {} of these subscriptions", o.late_sub_untold.iter().filter(|x| *x == b).count()));
        }
        // at most one error for the event
        if o.errors_total > 1 {
            ctx.violation(&format!("more_than_one_error:{}:{:?}", kind.name(), fault), format!("{tag}: recv reported {} errors for one failed connection ({} of them after the socket had already observed the end)", o.errors_total, o.errors_after_observation));
        }
        // an injected error that never fired (the socket had no reason to read / write on that
        // connection) leaves a healthy peer: nothing to forget, nothing to release
        let fired = match (&o.victim_conn, fault) {
            (Some(v), Fault::ReadError) => !v.pending_faults(1 - o.lib_side).0,
            (Some(v), Fault::WriteError) => !v.pending_faults(o.lib_side).1,
            _ => true,
        };
        if !fired {
            ctx.probe("injected_error_never_reached");
        }
        // nothing routed to the victim after the observation point
        if fired && o.fired_at_observation && o.victim_tap_final > o.victim_tap_at_observation {
            ctx.violation(&format!("routed_to_failed_peer:{}:{:?}", kind.name(), fault), format!("{tag}: {} bytes were written to the victim's connection after the socket had observed its end ({} sends, {} failed)", o.victim_tap_final - o.victim_tap_at_observation, o.sends_after, o.send_errors_after));
        }
        // with live bystanders, a round-robin sender must not keep failing on the dead peer
        if fired && o.fired_at_observation && matches!(kind, Kind::Push | Kind::Dealer | Kind::Req) && o.send_errors_after > 1 {
            ctx.violation(&format!("sends_keep_failing:{}:{:?}", kind.name(), fault), format!("{tag}: {} of {} sends failed after the end had been observed although {} live peers were connected", o.send_errors_after, o.sends_after, nby));
        }
        // released
        if let Some(v) = &o.victim_conn {
            // 'released' is owed only if the fault had fired by the observation point: the socket
            // is polled (recv drained, sends attempted) after that point, not after a later firing
            if fired && o.fired_at_observation && !v.released(o.lib_side) {
                let st = v.side_state(o.lib_side);
                ctx.violation(&format!("not_released:{}:{:?}", kind.name(), fault), format!("{tag}: at quiescence the socket still holds the victim's connection (read half dropped: {}, write half dropped: {})", st.read_half_dropped.is_some(), st.write_half_dropped.is_some()));
            }
        }
        ctx.nontrivial();
        ctx.probe(pos);
    } else if end == rt::RunEnd::Quiescent && ctx.sim.rt.panics.borrow().is_empty() {
        ctx.violation(&format!("hang:{}:{:?}", kind.name(), fault), format!("{tag}: a recv or send of the application never completed"));
    }
    ctx.out.extra_shape = ctx.idx % (36 * (len as u64 + 1));
    if ctx.want_sample {
        ctx.out.sample = Some(tag);
    }
}

/// leak growth: N connect / handshake / one message / disconnect cycles; the number of
/// connections the socket still holds afterwards must not grow with N
fn churn(ctx: &mut Ctx) {
    let kind = ALL_KINDS[(ctx.idx % 9) as usize];
    world::swarm(ctx, SwarmOpts::default());
    let n = 4 + ctx.plan(12) as usize;
    let how = ctx.plan(2);
    let out: Rc<RefCell<(bool, Vec<Arc<rt::net::Conn>>)>> = Rc::new(RefCell::new((false, vec![])));
    let o2 = out.clone();
    let peer_type = kind.peers()[0];
    rt::task::spawn_local("app", async move {
        let mut sock = AnySock::new(kind, None);
        let ep = sock.bind("tcp://127.0.0.1:0").await.expect("bind").to_string();
        let dummy = Rc::new(RefCell::new(Out::default()));
        for c in 0..n {
            let mut p = RawPeer::connect(&ep).expect("connect");
            o2.borrow_mut().1.push(p.conn.clone());
            let _ = p.hello(peer_type, None).await;
            if kind.has_recv() && kind != Kind::Req {
                let mut m = if kind == Kind::Rep { vec![vec![]] } else { vec![] };
                m.extend(tagged(c as u16, 0, &[2]));
                let _ = p.send_msg(&m).await;
            }
            drain(&mut sock, kind, &dummy, false).await;
            if kind.has_send() && kind != Kind::Rep && kind != Kind::Router {
                let _ = sock.send(to_zmq(&tagged(80, c as u32, &[1]))).await;
                if kind == Kind::Req {
                    let _ = p.send_msg(&[vec![], b"ok".to_vec()]).await;
                    let _ = rt::future::or_idle(sock.recv()).await;
                }
            }
            if how == 0 {
                p.close();
            } else {
                p.reset();
                drop(p);
            }
            drain(&mut sock, kind, &dummy, false).await;
            if kind.has_send() && kind != Kind::Rep && kind != Kind::Router {
                // sending kinds notice a dead peer when they next try to use it
                let _ = sock.send(to_zmq(&tagged(81, c as u32, &[1]))).await;
                let _ = sock.send(to_zmq(&tagged(82, c as u32, &[1]))).await;
                if kind == Kind::Req {
                    let _ = rt::future::or_idle(sock.recv()).await;
                }
            }
        }
        rt::task::idle().await;
        o2.borrow_mut().0 = true;
        world::park().await;
        drop(sock);
    });
    let end = ctx.sim.run(800_000);
    if end == rt::RunEnd::Budget {
        ctx.violation("no_quiescence", format!("{} churn: no quiescence", kind.name()));
    }
    ctx.check_panics();
    let o = out.borrow();
    if o.0 {
        let retained = o.1.iter().filter(|c| !c.released(1)).count();
        if retained > 2 {
            ctx.violation(&format!("dead_connections_accumulate:{}:{}", kind.name(), if how == 0 { "Close" } else { "Reset" }), format!("{}: after {n} connect/{}/observe cycles the socket still holds {retained} of the {n} dead connections", kind.name(), if how == 0 { "close" } else { "reset" }));
        }
        ctx.nontrivial();
    } else if end == rt::RunEnd::Quiescent && ctx.sim.rt.panics.borrow().is_empty() {
        ctx.violation("hang", format!("{} churn: the application never finished", kind.name()));
    }
    if ctx.want_sample {
        ctx.out.sample = Some(format!("{}: {n} connect / exchange / {} cycles", kind.name(), if how == 0 { "close" } else { "reset" }));
    }
}


/// a peer leaves in an orderly way and rejoins under the same announced identity, at every
/// timing relative to the socket noticing the departure; the new connection must work in both
/// directions and the old one must be released
fn rejoin_same_identity(ctx: &mut Ctx) {
    rejoin(ctx, 0)
}
/// The same histories judged for C06 (only: a message of the rejoined peer is available and recv
/// completes) and for C10 (only: the rejoined peer is in the rotation of a round-robin sender).
pub fn rejoin_heard(ctx: &mut Ctx) {
    rejoin(ctx, 1)
}
pub fn rejoin_in_rotation(ctx: &mut Ctx) {
    rejoin(ctx, 2)
}
/// C09: ROUTER only, judged for label and routability of the rejoined peer
pub fn rejoin_routable(ctx: &mut Ctx) {
    rejoin(ctx, 3)
}
/// C08: REP only, judged for "the reply goes to the connection the request came from"
pub fn rejoin_reply(ctx: &mut Ctx) {
    rejoin(ctx, 4)
}
/// C04: every kind, judged for "the peer admitted again under its identity is a peer": heard,
/// reachable, labelled with its identity, its connection kept
pub fn rejoin_registered(ctx: &mut Ctx) {
    rejoin(ctx, 5)
}
/// C14: REP only; while the reply to the request that came in on the new connection is owed, a
/// further recv is polled a few times and dropped: the owed reply is still accepted and reaches
/// the connection that asked
pub fn rejoin_owed_reply(ctx: &mut Ctx) {
    rejoin(ctx, 6)
}
fn rejoin(ctx: &mut Ctx, judge: u8) {
    let kind = if judge == 2 { Kind::Dealer } else if judge == 3 { Kind::Router } else if judge == 4 || judge == 6 { Kind::Rep } else { [Kind::Router, Kind::Dealer, Kind::Rep, Kind::Pull, Kind::Xpub, Kind::Sub][(ctx.idx % 6) as usize] };
    let timing = (ctx.idx / 6) % 4; // when the second connection is opened
    // how the first connection ends: orderly close, cut inside a message, reset - or not at all: it
    // stays open and idle (a half-open connection, or a second client configured with the same
    // identity), and the newcomer takes its place
    let how = (ctx.idx / 24) % 4;
    let idx = ctx.idx;
    world::swarm(ctx, SwarmOpts::default());
    let out: Rc<RefCell<(bool, Vec<(&'static str, String)>, Vec<Arc<rt::net::Conn>>)>> = Rc::new(RefCell::new((false, vec![], vec![])));
    let o2 = out.clone();
    let peer_type = kind.peers()[0];
    rt::task::spawn_local("app", async move {
        let mut sock = AnySock::new(kind, None);
        let ep = sock.bind("tcp://127.0.0.1:0").await.expect("bind").to_string();
        let dummy = Rc::new(RefCell::new(Out::default()));
        dummy.borrow_mut().bystander_got = vec![0; 4];
        let msg = |n: u32| -> Vec<Vec<u8>> {
            let mut m = if kind == Kind::Rep { vec![vec![]] } else { vec![] };
            m.extend(tagged(1, n, &[3]));
            m
        };
        let kept_open: Rc<RefCell<Vec<RawPeer>>> = Rc::new(RefCell::new(Vec::new()));
        let mut p1 = RawPeer::connect(&ep).expect("connect");
        o2.borrow_mut().2.push(p1.conn.clone());
        let _ = p1.hello(peer_type, Some(b"same-id")).await;
        let _ = p1.send_msg(&msg(0)).await;
        drain(&mut sock, kind, &dummy, false).await;
        // timing 0: the second connection exists before the first one closes
        let mut p2 = None;
        if timing == 0 {
            let mut p = RawPeer::connect(&ep).expect("connect");
            let _ = p.hello(peer_type, Some(b"same-id")).await;
            rt::task::idle().await;
            p2 = Some(p);
        }
        match how {
            0 => p1.close(),
            1 => {
                // the connection ends inside a message: the socket sees a read error
                let enc = rc::encode_msg(&msg(1));
                let _ = p1.send(&enc[..enc.len() / 2]).await;
                rt::count("fault_cut_mid_message");
                p1.close();
            }
            2 => {
                p1.reset();
                drop(p1);
            }
            _ => {
                rt::count("probe_old_connection_left_open");
                kept_open.borrow_mut().push(p1);
            }
        }
        // timing 1: right after the close, before the socket has been polled
        if timing == 1 {
            let mut p = RawPeer::connect(&ep).expect("connect");
            let _ = p.hello(peer_type, Some(b"same-id")).await;
            p2 = Some(p);
        }
        // the socket consumes the end of the first connection inside a recv
        drain(&mut sock, kind, &dummy, false).await;
        // timing 2: after the end was consumed, before the next recv call releases it
        if timing == 2 {
            let mut p = RawPeer::connect(&ep).expect("connect");
            let _ = p.hello(peer_type, Some(b"same-id")).await;
            rt::task::idle().await;
            p2 = Some(p);
        }
        drain(&mut sock, kind, &dummy, false).await;
        // timing 3: after everything has settled
        if timing == 3 {
            let mut p = RawPeer::connect(&ep).expect("connect");
            let _ = p.hello(peer_type, Some(b"same-id")).await;
            rt::task::idle().await;
            p2 = Some(p);
        }
        let mut p2 = p2.unwrap();
        o2.borrow_mut().2.push(p2.conn.clone());
        if matches!(kind, Kind::Xpub) {
            let _ = p2.send_msg(&[vec![1]]).await;
            p2.conn.set_io(1, |io| io.wyield_pm = 0);
            p2.conn.set_cap(1, 1 << 40);
        }
        rt::task::idle().await;
        // inbound on the new connection
        let _ = p2.send_msg(&msg(7)).await;
        let mut got = false;
        for _ in 0..20 {
            match rt::future::or_idle(sock.recv()).await {
                Some(Ok(m)) => {
                    let f = from_zmq(&m);
                    if tag_of(&f) == Some((1, 7)) {
                        got = true;
                        if kind == Kind::Rep {
                            if judge == 6 {
                                let k = 1 + (idx / 96) % 3;
                                let _ = rt::future::or_idle(rt::future::poll_budget(sock.recv(), k as u32)).await;
                                rt::count("fault_recv_cancelled");
                            }
                            if let Err(e) = sock.send(to_zmq(&[b"r".to_vec()])).await {
                                if judge == 6 {
                                    o2.borrow_mut().1.push(("owed_reply_refused", format!("REP (first connection ended by {}, rejoin timing {timing}): the request of the rejoined peer was received; a further recv was polled and dropped; the reply was then refused: {e}", ["close", "cut inside a message", "reset", "nothing (it stays open and idle)"][how as usize])));
                                }
                            }
                        }
                        break;
                    }
                    if kind == Kind::Rep {
                        let _ = sock.send(to_zmq(&[b"r".to_vec()])).await;
                    }
                }
                Some(Err(_)) => rt::task::yield_now().await,
                None => break,
            }
        }
        if !got {
            o2.borrow_mut().1.push(("rejoined_peer_not_heard", format!("{} (first connection ended by {}, rejoin timing {timing}): a message on the new connection of the rejoined peer was not delivered", kind.name(), ["close", "cut inside a message", "reset", "nothing (it stays open and idle)"][how as usize])));
        }
        // outbound to the new connection
        if kind.has_send() {
            let before = p2.inbound().messages().len();
            let ok = match kind {
                Kind::Router => sock.send(to_zmq(&[b"same-id".to_vec(), b"hello".to_vec()])).await.is_ok(),
                Kind::Rep => got, // the reply above
                _ => {
                    let mut any = false;
                    for _ in 0..3 {
                        any |= sock.send(to_zmq(&[b"hello".to_vec()])).await.is_ok();
                    }
                    any
                }
            };
            rt::task::idle().await;
            if !ok || p2.inbound().messages().len() == before && kind != Kind::Rep {
                o2.borrow_mut().1.push(("rejoined_peer_not_reachable", format!("{} (rejoin timing {timing}): nothing could be sent to the rejoined peer (send ok: {ok}, messages on its connection before/after: {before}/{})", kind.name(), p2.inbound().messages().len())));
            }
            if kind == Kind::Rep && p2.inbound().messages().is_empty() {
                o2.borrow_mut().1.push(("rejoined_peer_not_reachable", format!("REP (rejoin timing {timing}): the reply did not reach the rejoined peer's connection")));
            }
            if kind == Kind::Rep {
                let old_msgs = o2.borrow().2.first().map(|c| rc::parse_stream(&c.tap_from(1)).messages().len()).unwrap_or(0);
                if old_msgs > 1 {
                    o2.borrow_mut().1.push(("reply_on_the_old_connection", format!("REP (rejoin timing {timing}): the request came in on the peer's new connection, the reply was written to its old one ({old_msgs} messages there, one request was answered on it)")));
                }
            }
        }
        drain(&mut sock, kind, &dummy, false).await;
        // ... and it stays that way: once more after further recv calls have had every occasion to
        // process what is left of the old connection (a late "stream ended" report, for instance)
        drain(&mut sock, kind, &dummy, false).await;
        let _ = p2.send_msg(&msg(8)).await;
        let mut got2 = false;
        for _ in 0..20 {
            match rt::future::or_idle(sock.recv()).await {
                Some(Ok(m)) => {
                    let f = from_zmq(&m);
                    if kind == Kind::Router && f.first().map(|l| &l[..]) != Some(&b"same-id"[..]) {
                        o2.borrow_mut().1.push(("rejoined_peer_label_wrong", format!("ROUTER (rejoin timing {timing}): a message of the rejoined peer is labelled {} instead of the identity it announced", world::hex(f.first().map(|l| &l[..]).unwrap_or(&[])))));
                    }
                    let hit = tag_of(&f) == Some((1, 8));
                    if kind == Kind::Rep {
                        let _ = sock.send(to_zmq(&[b"r2".to_vec()])).await;
                    }
                    if hit {
                        got2 = true;
                        break;
                    }
                }
                Some(Err(_)) => rt::task::yield_now().await,
                None => break,
            }
        }
        if !got2 {
            o2.borrow_mut().1.push(("rejoined_peer_not_heard", format!("{} (first connection ended by {}, rejoin timing {timing}): after further recv calls, a second message on the new connection of the rejoined peer was not delivered", kind.name(), ["close", "cut inside a message", "reset", "nothing (it stays open and idle)"][how as usize])));
        }
        if kind.has_send() && kind != Kind::Rep {
            let before = p2.inbound().messages().len();
            let ok = match kind {
                Kind::Router => sock.send(to_zmq(&[b"same-id".to_vec(), b"again".to_vec()])).await.is_ok(),
                _ => {
                    let mut any = false;
                    for _ in 0..3 {
                        any |= sock.send(to_zmq(&[b"again".to_vec()])).await.is_ok();
                    }
                    any
                }
            };
            rt::task::idle().await;
            if !ok || p2.inbound().messages().len() == before {
                o2.borrow_mut().1.push(("rejoined_peer_not_reachable", format!("{} (rejoin timing {timing}): after further recv calls nothing could be sent to the rejoined peer any more (send ok: {ok}, messages on its connection before/after: {before}/{})", kind.name(), p2.inbound().messages().len())));
            }
        }
        drain(&mut sock, kind, &dummy, false).await;
        o2.borrow_mut().0 = true;
        world::park().await;
        drop(sock);
        drop(p2);
        drop(kept_open);
    });
    let end = ctx.sim.run(600_000);
    if end == rt::RunEnd::Budget {
        ctx.violation("no_quiescence", format!("{} rejoin: no quiescence", kind.name()));
    }
    ctx.check_panics();
    let o = out.borrow();
    for (c, d) in o.1.clone() {
        if judge == 1 && c != "rejoined_peer_not_heard" || judge == 2 && c != "rejoined_peer_not_reachable" || judge == 3 && !matches!(c, "rejoined_peer_not_reachable" | "rejoined_peer_label_wrong") || judge == 4 && !matches!(c, "rejoined_peer_not_reachable" | "reply_on_the_old_connection") || judge == 5 && !matches!(c, "rejoined_peer_not_heard" | "rejoined_peer_not_reachable" | "rejoined_peer_label_wrong") || judge == 6 && !matches!(c, "owed_reply_refused" | "rejoined_peer_not_reachable" | "reply_on_the_old_connection") {
            continue;
        }
        ctx.violation(&format!("{c}:{}", kind.name()), d);
    }
    if o.0 && judge == 5 {
        if let Some(c) = o.2.get(1) {
            if c.released(1) {
                ctx.violation(&format!("new_connection_dropped:{}", kind.name()), format!("{} (rejoin timing {timing}): the socket closed the live connection of the peer it had admitted again", kind.name()));
            }
        }
        ctx.nontrivial();
    } else if o.0 && judge != 0 {
        ctx.nontrivial();
    } else if o.0 {
        if let Some(c) = o.2.first() {
            if how != 3 && !c.released(1) {
                ctx.violation(&format!("old_connection_not_released:{}", kind.name()), format!("{} (rejoin timing {timing}): the connection the peer closed is still held by the socket at quiescence", kind.name()));
            }
        }
        if let Some(c) = o.2.get(1) {
            if c.released(1) {
                ctx.violation(&format!("new_connection_dropped:{}", kind.name()), format!("{} (rejoin timing {timing}): the socket closed the rejoined peer's live connection", kind.name()));
            }
        }
        ctx.nontrivial();
    } else if end == rt::RunEnd::Quiescent && ctx.sim.rt.panics.borrow().is_empty() && o.1.is_empty() {
        ctx.violation("hang", format!("{} rejoin: the application never finished", kind.name()));
    }
    ctx.out.extra_shape = ctx.idx % 96;
    if ctx.want_sample {
        ctx.out.sample = Some(format!("{}: peer 'same-id' sends, leaves and rejoins under the same identity (timing {timing})", kind.name()));
    }
}


/// An idle socket that is only ever polled with a deadline: a peer closes (or resets), nobody else
/// sends anything afterwards, and every recv call from then on is abandoned while it waits. The
/// dead connection must still be released (by the time a second such call has been made).
fn idle_release(ctx: &mut Ctx) {
    world::swarm(ctx, SwarmOpts::default());
    let kind = [Kind::Router, Kind::Dealer, Kind::Rep, Kind::Pull, Kind::Xpub, Kind::Sub][(ctx.idx % 6) as usize];
    let by_reset = (ctx.idx / 6) % 2 == 1;
    let nby = ctx.plan(3) as usize;
    let nmsg = ctx.plan(3) as u32;
    let calls = 2 + ctx.plan(3) as usize;
    let out: Rc<RefCell<(bool, Option<Arc<rt::net::Conn>>)>> = Rc::new(RefCell::new((false, None)));
    let o2 = out.clone();
    let peer_type = kind.peers()[0];
    rt::task::spawn_local("app", async move {
        let mut sock = AnySock::new(kind, None);
        if kind == Kind::Sub {
            let _ = sock.subscribe("").await;
        }
        let ep = sock.bind("tcp://127.0.0.1:0").await.expect("bind").to_string();
        let dummy = Rc::new(RefCell::new(Out::default()));
        dummy.borrow_mut().bystander_got = vec![0; 4];
        let mut keep = Vec::new();
        for b in 0..nby {
            let mut p = RawPeer::connect(&ep).expect("connect");
            let _ = p.hello(peer_type, Some(format!("by{b}").as_bytes())).await;
            keep.push(p);
        }
        let mut v = RawPeer::connect(&ep).expect("connect");
        o2.borrow_mut().1 = Some(v.conn.clone());
        let _ = v.hello(peer_type, Some(b"victim")).await;
        for n in 0..nmsg {
            let mut m = if kind == Kind::Rep { vec![vec![]] } else { vec![] };
            let mut body = tagged(50, n, &[3]);
            if kind == Kind::Xpub {
                body[0].insert(0, 1);
            }
            m.extend(body);
            let _ = v.send_msg(&m).await;
        }
        drain(&mut sock, kind, &dummy, false).await;
        if by_reset {
            v.reset();
            drop(v);
        } else {
            v.close();
        }
        // from here on: silence, and recv calls that give up
        for _ in 0..calls {
            let _ = rt::future::or_idle(sock.recv()).await;
            rt::count("probe_recv_abandoned_on_idle_socket");
        }
        rt::task::idle().await;
        o2.borrow_mut().0 = true;
        world::park().await;
        drop(sock);
        drop(keep);
    });
    let end = ctx.sim.run(300_000);
    if end == rt::RunEnd::Budget {
        ctx.violation("no_quiescence", format!("{} idle release: no quiescence", kind.name()));
    }
    ctx.check_panics();
    let o = out.borrow();
    if o.0 {
        if let Some(c) = &o.1 {
            if !c.released(1) {
                ctx.violation(&format!("not_released_on_idle_socket:{}:{}", kind.name(), if by_reset { "Reset" } else { "Close" }), format!("{}: a peer ended its connection by {}, nothing else arrived afterwards and {calls} recv calls were made and abandoned while waiting: the socket still holds the dead connection at quiescence", kind.name(), if by_reset { "reset" } else { "close" }));
            }
        }
        ctx.nontrivial();
    } else if end == rt::RunEnd::Quiescent && ctx.sim.rt.panics.borrow().is_empty() {
        ctx.violation("hang", format!("{} idle release: the application never finished", kind.name()));
    }
    if ctx.want_sample {
        ctx.out.sample = Some(format!("{}: victim sends {nmsg} message(s), ends by {}, {nby} silent bystanders, {calls} abandoned recv calls", kind.name(), if by_reset { "reset" } else { "close" }));
    }
}

/// the fair-queue component simulation with frequent closes: every stream whose end the queue has
/// seen must be reported as closed exactly once, whatever else happens in the same poll (other
/// streams waking themselves, running out of cooperative budget, inserts, removals)
fn l1_closed_reports(ctx: &mut Ctx) {
    crate::l1::CLOSE_HEAVY.with(|c| c.set(true));
    crate::l1::run(ctx);
}

pub fn def() -> PropDef {
    let space: u64 = 36 * (stream_len(Kind::Pull) as u64 + 4);
    PropDef {
        id: "C16",
        level: "fault_enumeration",
        rule: "cut_world: the case index enumerates socket type (9) x fault {orderly close, reset, read error, write error} x every byte offset of the victim's stream (greeting, READY, a 2-frame message with a 1-byte and an 8-byte size, a 1-frame message: ~370 offsets, i.e. every handshake stage, between messages, inside flags/length/body, between frames), first undisturbed, then under drawn transport/schedule; 1..3 bystanders with tagged traffic before and after; clauses others_affected, more_than_one_error, routed_to_failed_peer, sends_keep_failing, not_released, hang, no_quiescence; churn: 4..15 connect/exchange/disconnect cycles, retained connections counted; idle_release: 6 types x {close, reset}: the victim ends, 0..2 bystanders stay silent, 2..4 recv calls are made and abandoned at idle - the dead connection must be released; l1_closed_reports: the fair-queue component simulation (3.9) with frequent closes, judged for 'every stream the queue polled to its end is reported as closed exactly once' (the report is what makes a socket release the peer); non-trivial = judgement reached; distinct = distinct (case, plan, schedule, transport)",
        assumptions: &["observation point: the socket has been polled to quiescence after the fault (recv drained / sends attempted); 'released' is asserted only after that", "TCP half-close is not injected (its meaning for 'peer is gone' is ambiguous in the statement)"],
        strata: vec![
            Stratum { name: "cut_world", quick: space + 60_000, thorough: (space * 40) * 8, exhaustive: (false, false), run: cut_world, what: "victim cut at every offset x fault kind x socket type, bystanders alive" },
            Stratum { name: "cut_world_connect", quick: space / 2 + 20_000, thorough: (space * 10) * 8, exhaustive: (false, false), run: cut_world_connect, what: "the same grid with the victim at the far end of a connection opened by connect()" },
            Stratum { name: "rejoin_same_identity", quick: 24_000, thorough: (400_000) * 8, exhaustive: (false, false), run: rejoin_same_identity, what: "departure (close / cut inside a message / reset / none: the old connection stays open and idle) and rejoin under the same announced identity at four timings" },
            Stratum { name: "idle_release", quick: 24_000, thorough: 1_200_000, exhaustive: (false, false), run: idle_release, what: "a peer ends its connection, nothing else arrives, every later recv is abandoned while waiting: the connection is released all the same" },
            Stratum { name: "l1_closed_reports", quick: 200_000, thorough: 20_000_000, exhaustive: (false, false), run: l1_closed_reports, what: "fair-queue component simulation with frequent closes: every ended stream is reported as closed exactly once" },
            Stratum { name: "churn", quick: 18_000, thorough: (300_000) * 8, exhaustive: (false, false), run: churn, what: "repeated connect/disconnect cycles, retained connections" },
        ],
    }
}
