//! C04 — handshake admits exactly the well-formed, RFC-compatible peers.
use crate::fw::{Ctx, PropDef, Stratum};
use crate::refcodec as rc;
use crate::socks::{AnySock, Kind, ALL_KINDS};
use crate::world::{self, from_zmq, tagged, to_zmq, RawListener, RawPeer, SwarmOpts};
use std::cell::RefCell;
use std::rc::Rc;
use zeromq::{SocketEvent, SocketType};
use zmq_simrt as rt;

const PEER_TYPES: [Option<&str>; 14] = [Some("PAIR"), Some("PUB"), Some("SUB"), Some("REQ"), Some("REP"), Some("DEALER"), Some("ROUTER"), Some("PULL"), Some("PUSH"), Some("XPUB"), Some("XSUB"), Some("STREAM"), Some("BOGUS"), None];
const VERSIONS: [(u8, u8); 5] = [(1, 0), (2, 1), (3, 0), (3, 1), (4, 0)];
const MECHS: [&[u8]; 4] = [b"NULL", b"PLAIN", b"CURVE", b"XYZZY"];
const IDLENS: [Option<usize>; 5] = [None, Some(0), Some(1), Some(255), Some(256)];

pub const GRID_SIZE: u64 = 9 * 14 * 5 * 4 * 3 * 5 * 3 * 2;

/// RFC 23 / 28 / 29 / 30 socket compatibility, written from the RFC text (independent of the
/// library's matrix): a pair is compatible iff listed here (symmetric by construction)
fn rfc_compatible(a: &str, b: &str) -> bool {
    const PAIRS: &[(&str, &str)] = &[
        ("PAIR", "PAIR"),
        ("PUB", "SUB"),
        ("PUB", "XSUB"),
        ("XPUB", "SUB"),
        ("XPUB", "XSUB"),
        ("REQ", "REP"),
        ("REQ", "ROUTER"),
        ("DEALER", "REP"),
        ("DEALER", "DEALER"),
        ("DEALER", "ROUTER"),
        ("ROUTER", "ROUTER"),
        ("PUSH", "PULL"),
    ];
    PAIRS.iter().any(|(x, y)| (*x == a && *y == b) || (*x == b && *y == a))
}

#[derive(Clone, Debug)]
struct Cfg {
    kind: Kind,
    peer_type: Option<&'static str>,
    version: (u8, u8),
    mech: &'static [u8],
    sig: u8,
    idlen: Option<usize>,
    first: u8,
    connecting: bool,
}

fn cfg_of(mut i: u64) -> Cfg {
    let mut take = |n: u64| {
        let r = i % n;
        i /= n;
        r
    };
    Cfg {
        kind: ALL_KINDS[take(9) as usize],
        peer_type: PEER_TYPES[take(14) as usize],
        version: VERSIONS[take(5) as usize],
        mech: MECHS[take(4) as usize],
        sig: take(3) as u8,
        idlen: IDLENS[take(5) as usize],
        first: take(3) as u8,
        connecting: take(2) == 1,
    }
}

/// the reference admission predicate, from the statement
fn should_admit(c: &Cfg) -> bool {
    c.sig == 0
        && c.version >= (3, 0)
        && matches!(c.mech, b"NULL" | b"PLAIN" | b"CURVE")
        && c.first == 0
        && matches!(c.peer_type, Some(t) if rfc_compatible(c.kind.name(), t))
        && c.idlen.map(|l| l <= 255).unwrap_or(true)
}

struct Out {
    admitted_event: bool,
    failed_event: bool,
    connect_result: Option<bool>,
    traffic_flowed: bool,
    released: bool,
    leaked_delivery: bool,
    done: bool,
}

fn handshake(ctx: &mut Ctx) {
    // quick: the grid is sampled pseudo-randomly (plus drawn segmentation); thorough: enumerated
    let x = if ctx.tier == crate::fw::Tier::Quick { rt::tape::mix(ctx.idx, 11) % GRID_SIZE } else { ctx.idx % GRID_SIZE };
    let c = cfg_of(x);
    world::swarm(ctx, SwarmOpts::default());
    ctx.out.extra_shape = x;
    let expect = should_admit(&c);
    let extra = if ctx.plan(2) == 0 { 0 } else { 1 + ctx.plan(4) };
    let mon_order = ctx.plan(3);
    let out = Rc::new(RefCell::new(Out { admitted_event: false, failed_event: false, connect_result: None, traffic_flowed: false, released: false, leaked_delivery: false, done: false }));
    let (o2, c2) = (out.clone(), c.clone());
    rt::task::spawn_local("app", async move {
        let c = c2;
        let kind = c.kind;
        let mut sock = AnySock::new(kind, None);
        // the monitor may be installed before bind/connect, only after bind, or replaced after bind:
        // handshake outcomes go to whichever monitor is installed when they happen
        let mut mon = if mon_order != 1 { Some(sock.monitor()) } else { None };
        // the scripted peer's handshake bytes
        let mut g = rc::greeting(c.version.0, c.version.1, c.mech, false);
        match c.sig {
            1 => g[0] = 0xfe,
            2 => g[9] = 0x7e,
            _ => {}
        }
        let id: Option<Vec<u8>> = c.idlen.map(|l| (0..l).map(|i| (i % 200 + 1) as u8).collect());
        let mut props: Vec<(Vec<u8>, Vec<u8>)> = Vec::new();
        if let Some(t) = c.peer_type {
            props.push((b"Socket-Type".to_vec(), t.as_bytes().to_vec()));
        }
        if let Some(id) = &id {
            props.push((b"Identity".to_vec(), id.clone()));
        }
        // further metadata properties are legal in READY and decide nothing: a short one, one long
        // value, many of them (the READY body then exceeds 255 resp. a few hundred bytes)
        match extra {
            1 => props.push((b"X-App".to_vec(), b"demo".to_vec())),
            2 => props.push((b"X-Blob".to_vec(), vec![b'v'; 400])),
            3 => {
                for k in 0..20 {
                    props.push((format!("X-Key-{k}").into_bytes(), vec![b'a' + k as u8; 30]));
                }
            }
            4 => props.insert(0, (b"Resource".to_vec(), b"r".to_vec())),
            _ => {}
        }
        let pr: Vec<(&[u8], &[u8])> = props.iter().map(|(a, b)| (&a[..], &b[..])).collect();
        let first_item = match c.first {
            0 => rc::ready(&pr),
            1 => rc::command(b"ERROR", b"\x04nope"),
            _ => rc::encode_msg(&[b"early".to_vec()]),
        };
        let mut hello = g;
        hello.extend(first_item);
        let mut peer: RawPeer;
        if c.connecting {
            let (l, lep) = RawListener::bind("tcp://127.0.0.1:0").expect("listen");
            let h2 = hello.clone();
            let acc = rt::task::spawn_local("acceptor", async move {
                let mut p = l.accept().await.expect("accept");
                let _ = p.send(&h2).await;
                p
            });
            if mon.is_none() {
                mon = Some(sock.monitor());
            }
            let r = sock.connect(&lep).await;
            o2.borrow_mut().connect_result = Some(r.is_ok());
            peer = acc.await.expect("acceptor");
        } else {
            let ep = sock.bind("tcp://127.0.0.1:0").await.expect("bind").to_string();
            if mon_order != 0 {
                mon = Some(sock.monitor());
            }
            peer = RawPeer::connect(&ep).expect("connect");
            let _ = peer.send(&hello).await;
        }
        rt::task::idle().await;
        let mut mon = mon.expect("monitor installed");
        while let Ok(Some(ev)) = mon.try_next() {
            match ev {
                SocketEvent::Accepted(..) | SocketEvent::Connected(..) => o2.borrow_mut().admitted_event = true,
                SocketEvent::AcceptFailed(_) => o2.borrow_mut().failed_event = true,
                _ => {}
            }
        }
        // does application traffic flow?
        let lib_side = 1 - peer.side;
        let probe = {
            let mut m = if matches!(kind, Kind::Rep | Kind::Req) { vec![vec![]] } else { vec![] };
            m.extend(tagged(3, 0, &[2]));
            m
        };
        if kind.has_recv() && kind != Kind::Req {
            let _ = peer.send_msg(&probe).await;
            match rt::future::or_idle(sock.recv()).await {
                Some(Ok(m)) if crate::world::tag_of(&from_zmq(&m)) == Some((3, 0)) => o2.borrow_mut().traffic_flowed = true,
                _ => {}
            }
        } else {
            // sending kinds: the message must reach (or not reach) this peer's connection
            if matches!(kind, Kind::Pub) {
                // PUB flushes with a no-op waker: the peer must accept every write at once
                peer.conn.set_io(lib_side, |io| io.wyield_pm = 0);
                peer.conn.set_cap(lib_side, 1 << 40);
                let _ = peer.send_msg(&[vec![1]]).await;
                rt::task::idle().await;
            }
            let before = peer.conn.tap_len_from(lib_side);
            let body = tagged(3, 0, &[2]);
            let _ = sock.send(to_zmq(&body)).await;
            rt::task::idle().await;
            let tap = peer.conn.tap_from(lib_side);
            let grew = tap.len() > before && rc::parse_stream(&tap).messages().iter().any(|m| crate::world::tag_of(m) == Some((3, 0)));
            if grew {
                o2.borrow_mut().traffic_flowed = true;
            }
        }
        rt::task::idle().await;
        o2.borrow_mut().released = peer.conn.released(lib_side);
        o2.borrow_mut().done = true;
        world::park().await;
        drop(sock);
        drop(peer);
    });
    let end = ctx.sim.run(300_000);
    let o = out.borrow();
    let tag = format!("{} {} a peer with greeting {}.{} / {:?} / signature {} and first item {} (Socket-Type {:?}, identity {:?}, extra metadata variant {extra})", c.kind.name(), if c.connecting { "connecting to" } else { "accepting" }, c.version.0, c.version.1, String::from_utf8_lossy(c.mech), ["ok", "byte 0 wrong", "byte 9 wrong"][c.sig as usize], ["READY", "other command", "message"][c.first as usize], c.peer_type, c.idlen);
    if end == rt::RunEnd::Budget {
        ctx.violation("no_quiescence", format!("{tag}: no quiescence"));
    }
    ctx.check_panics();
    if o.done {
        if expect {
            if !o.traffic_flowed {
                ctx.violation("compatible_peer_not_admitted", format!("{tag}: must be admitted, but no application message was exchanged (admission event {}, connect result {:?})", o.admitted_event, o.connect_result));
            }
            if c.connecting && o.connect_result == Some(false) {
                ctx.violation("compatible_peer_not_admitted", format!("{tag}: connect() failed"));
            }
        } else {
            if o.traffic_flowed {
                ctx.violation("incompatible_peer_exchanged_messages", format!("{tag}: must be rejected, but an application message was exchanged"));
            }
            if o.admitted_event || o.connect_result == Some(true) {
                ctx.violation("incompatible_peer_admitted", format!("{tag}: must be rejected, but the socket reported it as connected"));
            }
            if !c.connecting && !o.failed_event {
                ctx.violation("rejection_not_reported", format!("{tag}: rejected without an AcceptFailed event on the monitor"));
            }
            if !o.released {
                ctx.violation("rejected_connection_not_closed", format!("{tag}: the rejected connection was not closed by the socket"));
            }
        }
        ctx.nontrivial();
        ctx.probe(if expect { "expected_admit" } else { "expected_reject" });
    } else if end == rt::RunEnd::Quiescent && ctx.sim.rt.panics.borrow().is_empty() {
        ctx.violation("stuck", format!("{tag}: the handshake scenario never completed"));
    }
    if ctx.want_sample {
        ctx.out.sample = Some(format!("{tag}; reference predicate: {}", if expect { "admit" } else { "reject" }));
    }
}


/// "An admitted peer is registered exactly once, under the identity it announced or else a fresh
/// unique one": 2..4 admissible peers on one socket, each announcing no identity, an empty one, or
/// a distinct non-empty one (edge shapes included); afterwards every peer must still be a peer
/// (its connection open, its traffic flowing exactly once) and the identities the socket reports
/// must be the announced ones, resp. pairwise distinct.
fn registration(ctx: &mut Ctx) {
    world::swarm(ctx, SwarmOpts::default());
    let kind = ALL_KINDS[(ctx.idx % 9) as usize];
    let n = 2 + ctx.plan(3) as usize;
    let idopt: Vec<u8> = (0..n).map(|_| ctx.plan(8) as u8).collect();
    let dial: Vec<bool> = (0..n).map(|_| ctx.plan(3) == 0).collect();
    let ptype: Vec<&'static str> = (0..n).map(|_| kind.peers()[ctx.plan(kind.peers().len() as u64) as usize]).collect();
    let starts: Vec<u32> = (0..n).map(|_| ctx.plan(12) as u32).collect();
    let ident = |i: usize| -> Option<Vec<u8>> {
        let b = i as u8 + 1;
        match idopt[i] {
            0 => None,
            1 => Some(vec![]),
            2 => Some(format!("peer-{i}").into_bytes()),
            3 => Some(vec![b; 255]),
            4 => Some(vec![0, b]),          // leading zero byte (libzmq reserves these for generated ids)
            5 => Some(vec![b]),
            6 => Some(vec![0xff, b, 0, 0]), // trailing zero bytes
            _ => Some(vec![b' ', b, b'\n']),
        }
    };
    let idents: Vec<Option<Vec<u8>>> = (0..n).map(ident).collect();
    struct R {
        conns: Vec<Option<(std::sync::Arc<rt::net::Conn>, u16, usize)>>,
        keep: Vec<Option<RawPeer>>,
        events: Vec<(u16, Vec<u8>, bool)>, // (port, identity, accepted)
        got: Vec<(u16, u32)>,
        per_conn_msgs: Vec<usize>,
        dial_ports: Vec<u16>,
        done: bool,
        connect_failed: Option<String>,
    }
    let r = Rc::new(RefCell::new(R { conns: vec![None; n], keep: (0..n).map(|_| None).collect(), events: vec![], got: vec![], per_conn_msgs: vec![], dial_ports: vec![0; n], done: false, connect_failed: None }));
    let r2 = r.clone();
    let (idents2, dial2, ptype2) = (idents.clone(), dial.clone(), ptype.clone());
    rt::task::spawn_local("app", async move {
        let (idents, dial, ptype) = (idents2, dial2, ptype2);
        let mut sock = AnySock::new(kind, None);
        let mut mon = sock.monitor();
        let ep = sock.bind("tcp://127.0.0.1:0").await.expect("bind").to_string();
        let judged_sub = matches!(kind, Kind::Pub | Kind::Xpub);
        let mut accs = Vec::new();
        for i in 0..n {
            let (r3, id, pt, start) = (r2.clone(), idents[i].clone(), ptype[i], starts[i]);
            if dial[i] {
                let (l, lep) = RawListener::bind("tcp://127.0.0.1:0").expect("listen");
                r2.borrow_mut().dial_ports[i] = world::parse_ep(&lep).2;
                let acc = rt::task::spawn_local("acceptor", async move {
                    let Ok(mut p) = l.accept().await else { return };
                    r3.borrow_mut().conns[i] = Some((p.conn.clone(), 0, 1 - p.side));
                    if judged_sub {
                        p.conn.set_io(1 - p.side, |io| io.wyield_pm = 0);
                        p.conn.set_cap(1 - p.side, 1 << 40);
                    }
                    let _ = p.hello(pt, id.as_deref()).await;
                    r3.borrow_mut().keep[i] = Some(p);
                    let _l = l;
                    world::park().await;
                });
                accs.push((i, lep, acc));
            } else {
                let ep = ep.clone();
                rt::task::spawn_local("peer", async move {
                    for _ in 0..start {
                        rt::task::yield_now().await;
                    }
                    let Ok(mut p) = RawPeer::connect(&ep) else { return };
                    let port = p.s.local_addr().map(|a| a.port()).unwrap_or(0);
                    r3.borrow_mut().conns[i] = Some((p.conn.clone(), port, 1 - p.side));
                    if judged_sub {
                        p.conn.set_io(1 - p.side, |io| io.wyield_pm = 0);
                        p.conn.set_cap(1 - p.side, 1 << 40);
                    }
                    let _ = p.hello(pt, id.as_deref()).await;
                    r3.borrow_mut().keep[i] = Some(p);
                    world::park().await;
                });
            }
        }
        for (i, lep, _acc) in &accs {
            if let Err(e) = sock.connect(lep).await {
                r2.borrow_mut().connect_failed = Some(format!("connect to peer {i}: {e}"));
                return world::park().await;
            }
        }
        rt::task::idle().await;
        while let Ok(Some(ev)) = mon.try_next() {
            match ev {
                SocketEvent::Accepted(zeromq::Endpoint::Tcp(_, port), id) => r2.borrow_mut().events.push((port, id.as_ref().to_vec(), true)),
                SocketEvent::Connected(zeromq::Endpoint::Tcp(_, port), id) => r2.borrow_mut().events.push((port, id.as_ref().to_vec(), false)),
                _ => {}
            }
        }
        // ---- every admitted peer is a peer: traffic, exactly once ------------------------------------
        let conns: Vec<(std::sync::Arc<rt::net::Conn>, usize)> = r2.borrow().conns.iter().flatten().map(|c| (c.0.clone(), c.2)).collect();
        let mut peers: Vec<RawPeer> = r2.borrow_mut().keep.iter_mut().filter_map(|p| p.take()).collect();
        if conns.len() == n && peers.len() == n {
            let base: Vec<usize> = conns.iter().map(|(c, side)| rc::parse_stream(&c.tap_from(*side)).messages().len()).collect();
            if kind.has_recv() && kind != Kind::Req {
                for i in 0..n {
                    let mut m: Vec<Vec<u8>> = if kind == Kind::Rep { vec![vec![]] } else { vec![] };
                    let mut body = tagged(i as u16, 0, &[3]);
                    if kind == Kind::Xpub {
                        body[0].insert(0, 1); // a subscription message whose topic carries the tag
                    }
                    m.extend(body);
                    let _ = peers[i].send_msg(&m).await;
                }
                while let Some(res) = rt::future::or_idle(sock.recv()).await {
                    match res {
                        Ok(m) => {
                            if let Some(t) = world::tag_of(&from_zmq(&m)) {
                                r2.borrow_mut().got.push(t);
                            }
                            if kind == Kind::Rep {
                                let _ = sock.send(to_zmq(&[b"r".to_vec()])).await;
                            }
                        }
                        Err(_) => break,
                    }
                }
            } else {
                if kind == Kind::Pub {
                    for p in peers.iter_mut() {
                        let _ = p.send_msg(&[vec![1]]).await;
                    }
                    rt::task::idle().await;
                }
                let rounds = if kind == Kind::Pub { 1 } else { n };
                for k in 0..rounds {
                    if sock.send(to_zmq(&tagged(9, k as u32, &[3]))).await.is_err() {
                        break;
                    }
                    if kind == Kind::Req {
                        // whoever got the request answers it
                        rt::task::idle().await;
                        for (j, (c, side)) in conns.iter().enumerate() {
                            let have = rc::parse_stream(&c.tap_from(*side)).messages().len();
                            let answered = r2.borrow().per_conn_msgs.get(j).copied().unwrap_or(0);
                            if have - base[j] > answered {
                                let _ = peers[j].send_msg(&[vec![], b"ok".to_vec()]).await;
                                let mut rr = r2.borrow_mut();
                                if rr.per_conn_msgs.len() < n {
                                    rr.per_conn_msgs.resize(n, 0);
                                }
                                rr.per_conn_msgs[j] += 1;
                            }
                        }
                        let _ = rt::future::or_idle(sock.recv()).await;
                    }
                }
                rt::task::idle().await;
                let now: Vec<usize> = conns.iter().map(|(c, side)| rc::parse_stream(&c.tap_from(*side)).messages().len()).collect();
                r2.borrow_mut().per_conn_msgs = now.iter().zip(base.iter()).map(|(a, b)| a - b).collect();
            }
        }
        rt::task::idle().await;
        r2.borrow_mut().done = true;
        world::park().await;
        drop(sock);
        drop(peers);
    });
    let end = ctx.sim.run(400_000);
    let tag = format!("{} with {n} admissible peers announcing identities {:?} (dialled: {:?})", kind.name(), idents.iter().map(|i| i.as_ref().map(|b| world::hex(&b[..b.len().min(6)]))).collect::<Vec<_>>(), dial);
    if end == rt::RunEnd::Budget {
        ctx.violation("no_quiescence", format!("{tag}: no quiescence"));
    }
    ctx.check_panics();
    let o = r.borrow();
    if let Some(e) = &o.connect_failed {
        ctx.violation("compatible_peer_not_admitted", format!("{tag}: {e}"));
    } else if o.done && o.conns.iter().all(|c| c.is_some()) {
        // one admission event per peer, under the announced identity
        let mut reported: Vec<Option<Vec<u8>>> = vec![None; n];
        for i in 0..n {
            let (_, port, _) = o.conns[i].as_ref().unwrap();
            let evs: Vec<&(u16, Vec<u8>, bool)> = if dial[i] { o.events.iter().filter(|e| !e.2 && e.0 == o.dial_ports[i]).collect() } else { o.events.iter().filter(|e| e.2 && e.0 == *port).collect() };
            if evs.len() != 1 {
                ctx.violation("not_registered_exactly_once", format!("{tag}: peer {i} has {} admission events on the monitor", evs.len()));
                continue;
            }
            reported[i] = Some(evs[0].1.clone());
            if let Some(a) = &idents[i] {
                if !a.is_empty() && evs[0].1 != *a {
                    ctx.violation("registered_under_other_identity", format!("{tag}: peer {i} announced identity {} but was registered as {}", world::hex(a), world::hex(&evs[0].1)));
                }
            }
        }
        for i in 0..n {
            for j in 0..i {
                if let (Some(a), Some(b)) = (&reported[i], &reported[j]) {
                    if a == b {
                        ctx.violation("identity_not_unique", format!("{tag}: peers {j} and {i} are both registered under identity {}", world::hex(a)));
                    }
                }
            }
        }
        for i in 0..n {
            let (c, _, side) = o.conns[i].as_ref().unwrap();
            if c.released(*side) {
                ctx.violation("admitted_peer_dropped", format!("{tag}: the socket closed its side of peer {i}'s connection although the peer was admitted and nothing failed"));
            }
        }
        if kind.has_recv() && kind != Kind::Req {
            for i in 0..n {
                let cnt = o.got.iter().filter(|t| t.0 == i as u16).count();
                if cnt != 1 {
                    ctx.violation("admitted_peer_traffic", format!("{tag}: the probe message of peer {i} was delivered {cnt} times"));
                }
            }
        } else if kind == Kind::Pub {
            for (i, c) in o.per_conn_msgs.iter().enumerate() {
                if *c != 1 {
                    ctx.violation("admitted_peer_traffic", format!("{tag}: subscriber {i} received {c} copies of one published message"));
                }
            }
        } else if o.per_conn_msgs.len() == n {
            for (i, c) in o.per_conn_msgs.iter().enumerate() {
                if *c != 1 {
                    ctx.violation("admitted_peer_traffic", format!("{tag}: {n} sends over {n} registered peers, peer {i} received {c}"));
                }
            }
        }
        ctx.nontrivial();
    } else if end == rt::RunEnd::Quiescent && ctx.sim.rt.panics.borrow().is_empty() {
        ctx.violation("stuck", format!("{tag}: the registration scenario never completed"));
    }
    if ctx.want_sample {
        ctx.out.sample = Some(tag);
    }
}

/// "Or else a fresh unique one": the identities a socket generates share a namespace with the ones
/// peers announce. An anonymous peer joins and the application learns its generated identity G from
/// the monitor; if G is short (up to 8 bytes: the range in which applications number their peers) a
/// peer then announces an identity next to G (G+-1..4 as a big- or little-endian number of the same
/// length: what a counter, a clock or a sequence would hand out next), and further anonymous peers
/// join. Every registration must stay distinct and the announcing peer must
/// stay a peer under the identity it announced.
fn predicted_identity(ctx: &mut Ctx) {
    world::swarm(ctx, SwarmOpts::default());
    let kind = ALL_KINDS[(ctx.idx % 9) as usize];
    let delta = 1 + ctx.plan(4) as u8;
    let how = ctx.plan(3);
    let nlate = 1 + ctx.plan(5) as usize;
    let late_dialled: Vec<bool> = (0..nlate).map(|_| ctx.plan(4) == 0).collect();
    let peer_type = kind.peers()[0];
    #[derive(Default)]
    struct R {
        generated: Vec<u8>,
        guess: Vec<u8>,
        ids: Vec<(String, Vec<u8>)>,
        announcer_conn: Option<(std::sync::Arc<rt::net::Conn>, usize)>,
        announcer_before: usize,
        announcer_after: usize,
        others_after: usize,
        routed: bool,
        announcer_probe: usize,
        done: bool,
        skipped: bool,
    }
    let r = Rc::new(RefCell::new(R::default()));
    let r2 = r.clone();
    let late2 = late_dialled.clone();
    rt::task::spawn_local("app", async move {
        let mut sock = AnySock::new(kind, None);
        let mut mon = sock.monitor();
        let ep = sock.bind("tcp://127.0.0.1:0").await.expect("bind").to_string();
        let mut keep: Vec<RawPeer> = Vec::new();
        let mut keepl = Vec::new();
        let mut take_ids = |mon: &mut futures::channel::mpsc::Receiver<SocketEvent>, who: &str, r: &Rc<RefCell<R>>| {
            let mut last = None;
            while let Ok(Some(ev)) = mon.try_next() {
                match ev {
                    SocketEvent::Accepted(_, id) | SocketEvent::Connected(_, id) => {
                        r.borrow_mut().ids.push((who.to_string(), id.as_ref().to_vec()));
                        last = Some(id.as_ref().to_vec());
                    }
                    _ => {}
                }
            }
            last
        };
        // the anonymous probe
        let mut probe = RawPeer::connect(&ep).expect("connect");
        let _ = probe.hello(peer_type, None).await;
        rt::task::idle().await;
        keep.push(probe);
        let Some(g) = take_ids(&mut mon, "the anonymous probe", &r2) else {
            return world::park().await;
        };
        // Only short generated identities are predicted. Up to 8 bytes is where applications number
        // their peers (worker 1, 2, 3 ...; a u64), so a generator that hands out values there meets
        // identities that were chosen without any knowledge of it. A longer identity drawn from a
        // secret random base (a UUID; a random 128-bit start that is counted up, as libzmq does with
        // 32 bits) can only be met by a peer that has been shown generated identities by the
        // application, and the statement does not promise anything to such a peer.
        if g.len() > 8 {
            rt::count("probe_generated_identity_longer_than_8_bytes_not_predicted");
            r2.borrow_mut().skipped = true;
            return world::park().await;
        }
        // the guess
        let mut guess = g.clone();
        let bump = |v: &mut Vec<u8>, up: bool, le: bool, by: u8| {
            let n = v.len();
            let mut carry = by as i16 * if up { 1 } else { -1 };
            for k in 0..n {
                let i = if le { k } else { n - 1 - k };
                let x = v[i] as i16 + carry;
                v[i] = x.rem_euclid(256) as u8;
                carry = x.div_euclid(256);
                if carry == 0 {
                    break;
                }
            }
        };
        match how {
            0 => bump(&mut guess, true, false, delta),
            1 => bump(&mut guess, true, true, delta),
            _ => bump(&mut guess, false, false, delta),
        }
        if guess.is_empty() || guess.len() > 255 {
            return world::park().await;
        }
        r2.borrow_mut().generated = g;
        r2.borrow_mut().guess = guess.clone();
        let mut ann = RawPeer::connect(&ep).expect("connect");
        let _ = ann.hello(peer_type, Some(&guess)).await;
        if matches!(kind, Kind::Pub | Kind::Xpub) {
            ann.conn.set_io(1 - ann.side, |io| io.wyield_pm = 0);
            ann.conn.set_cap(1 - ann.side, 1 << 40);
        }
        rt::task::idle().await;
        take_ids(&mut mon, "the announcing peer", &r2);
        r2.borrow_mut().announcer_conn = Some((ann.conn.clone(), 1 - ann.side));
        // further anonymous peers
        let mut late_conns = Vec::new();
        for (k, dialled) in late2.iter().enumerate() {
            if *dialled {
                let (l, lep) = RawListener::bind("tcp://127.0.0.1:0").expect("listen");
                let acc = rt::task::spawn_local("acceptor", async move {
                    let Ok(mut p) = l.accept().await else { return None };
                    let _ = p.hello(peer_type, None).await;
                    Some((p, l))
                });
                let _ = rt::future::or_idle(sock.connect(&lep)).await;
                if let Ok(Some((p, l))) = acc.await {
                    late_conns.push((p.conn.clone(), 1 - p.side));
                    keep.push(p);
                    keepl.push(l);
                }
            } else {
                let mut p = RawPeer::connect(&ep).expect("connect");
                let _ = p.hello(peer_type, None).await;
                late_conns.push((p.conn.clone(), 1 - p.side));
                keep.push(p);
            }
            rt::task::idle().await;
            take_ids(&mut mon, &format!("late anonymous peer {k}"), &r2);
        }
        // the announcing peer is still a peer, under its identity
        let msgs = |c: &std::sync::Arc<rt::net::Conn>, side: usize| rc::parse_stream(&c.tap_from(side)).messages().len();
        r2.borrow_mut().announcer_before = msgs(&ann.conn, 1 - ann.side);
        let others_before: usize = late_conns.iter().map(|(c, s)| msgs(c, *s)).sum();
        if kind == Kind::Router {
            let _ = sock.send(to_zmq(&[guess.clone(), b"for-the-announcer".to_vec()])).await;
            r2.borrow_mut().routed = true;
        }
        if kind.has_recv() && kind != Kind::Req {
            let mut m: Vec<Vec<u8>> = if kind == Kind::Rep { vec![vec![]] } else { vec![] };
            let mut body = tagged(77, 0, &[3]);
            if kind == Kind::Xpub {
                body[0].insert(0, 1);
            }
            m.extend(body);
            let _ = ann.send_msg(&m).await;
            while let Some(res) = rt::future::or_idle(sock.recv()).await {
                match res {
                    Ok(m) => {
                        if world::tag_of(&from_zmq(&m)) == Some((77, 0)) {
                            r2.borrow_mut().announcer_probe += 1;
                        }
                        if kind == Kind::Rep {
                            let _ = sock.send(to_zmq(&[b"r".to_vec()])).await;
                        }
                    }
                    Err(_) => break,
                }
            }
        } else {
            r2.borrow_mut().announcer_probe = 1;
        }
        rt::task::idle().await;
        r2.borrow_mut().announcer_after = msgs(&ann.conn, 1 - ann.side);
        r2.borrow_mut().others_after = late_conns.iter().map(|(c, s)| msgs(c, *s)).sum::<usize>() - others_before;
        r2.borrow_mut().done = true;
        world::park().await;
        drop(sock);
        drop(keep);
        drop(keepl);
        drop(ann);
    });
    let end = ctx.sim.run(400_000);
    let o = r.borrow();
    let tag = format!("{}: an anonymous peer was registered as {}, a peer then announced {} and {nlate} more anonymous peer(s) joined (dialled: {:?})", kind.name(), world::hex(&o.generated), world::hex(&o.guess), late_dialled);
    if end == rt::RunEnd::Budget {
        ctx.violation("no_quiescence", format!("{tag}: no quiescence"));
    }
    ctx.check_panics();
    if o.done {
        for i in 0..o.ids.len() {
            for j in 0..i {
                if o.ids[i].1 == o.ids[j].1 {
                    ctx.violation("generated_identity_not_fresh", format!("{tag}: {} and {} are both registered under identity {}", o.ids[j].0, o.ids[i].0, world::hex(&o.ids[i].1)));
                }
            }
        }
        if !o.ids.iter().any(|(w, id)| w == "the announcing peer" && *id == o.guess) {
            ctx.violation("registered_under_other_identity", format!("{tag}: no admission event carries the announced identity"));
        }
        if let Some((c, side)) = &o.announcer_conn {
            if c.released(*side) {
                ctx.violation("admitted_peer_dropped", format!("{tag}: the socket closed its side of the announcing peer's connection although nothing failed"));
            }
        }
        if o.announcer_probe != 1 {
            ctx.violation("admitted_peer_traffic", format!("{tag}: the announcing peer's probe message was delivered {} times", o.announcer_probe));
        }
        if o.routed && (o.announcer_after != o.announcer_before + 1 || o.others_after != 0) {
            ctx.violation("routed_to_another_peer", format!("{tag}: a message addressed to the announced identity reached the announcing peer {} times and the later anonymous peers {} times", o.announcer_after - o.announcer_before, o.others_after));
        }
        ctx.nontrivial();
    } else if o.skipped {
        ctx.nontrivial();
    } else if end == rt::RunEnd::Quiescent && ctx.sim.rt.panics.borrow().is_empty() && !o.generated.is_empty() {
        ctx.violation("stuck", format!("{tag}: the scenario never completed"));
    }
    if ctx.want_sample {
        ctx.out.sample = Some(tag);
    }
}

/// side check (a pure enumeration, labelled as such): all 144 compatibility queries
fn compat_table(ctx: &mut Ctx) {
    world::plain(ctx);
    const ALL: [SocketType; 12] = [SocketType::PAIR, SocketType::PUB, SocketType::SUB, SocketType::REQ, SocketType::REP, SocketType::DEALER, SocketType::ROUTER, SocketType::PULL, SocketType::PUSH, SocketType::XPUB, SocketType::XSUB, SocketType::STREAM];
    let a = ALL[(ctx.idx % 12) as usize];
    let b = ALL[((ctx.idx / 12) % 12) as usize];
    let r1 = std::panic::catch_unwind(|| a.compatible(b));
    let r2 = std::panic::catch_unwind(|| b.compatible(a));
    let _ = rt::take_last_panic();
    match (r1, r2) {
        (Ok(x), Ok(y)) => {
            if x != y {
                ctx.violation("compatibility_not_symmetric", format!("{a}.compatible({b}) = {x} but {b}.compatible({a}) = {y}"));
            }
            let e = rfc_compatible(a.as_str(), b.as_str());
            if x != e {
                ctx.violation("compatibility_differs_from_rfc", format!("{a}.compatible({b}) = {x}, the RFC table says {e}"));
            }
        }
        _ => ctx.violation("compatibility_query_panics", format!("{a}.compatible({b}) or its mirror panics: the table is not defined for every pair of socket types")),
    }
    ctx.out.extra_shape = ctx.idx;
    ctx.nontrivial();
    if ctx.want_sample {
        ctx.out.sample = Some(format!("{a}.compatible({b})"));
    }
}

pub fn def() -> PropDef {
    PropDef {
        id: "C04",
        level: "fault_enumeration",
        rule: "handshake: grid = local socket type (9) x peer Socket-Type (12 names, unknown, missing) x version {1.0,2.1,3.0,3.1,4.0} x mechanism {NULL,PLAIN,CURVE,unknown} x signature {ok, byte 0 wrong, byte 9 wrong} x identity {none, empty, 1, 255, 256 bytes} x first item {READY, other command, message} x side {accepted, connected} = 226800 scripted handshakes, each with drawn segmentation/schedule and, in half of the cases, drawn extra READY metadata (a short property, one 400-byte value, twenty properties, a property ahead of Socket-Type) that must decide nothing, and a drawn moment at which the monitor is installed (before bind, only after bind, or replaced after bind), compared with a reference admission predicate written from the statement and the RFC compatibility table (thorough: enumerated completely; quick: pseudo-random sample); observables: application message exchanged or not, monitor Accepted/AcceptFailed, connect() result, connection closed by the socket; registration: socket type (9) x 2..4 admissible peers, each announcing no identity, an empty one or a distinct non-empty one (1 byte, 255 bytes, leading zero byte, trailing zero bytes, white space), joining by connect-in at drawn times or by being dialled: exactly one admission event per peer, under the announced identity resp. pairwise distinct ones, no admitted connection closed by the socket, and each peer's traffic flows exactly once (probe delivered once / one copy per subscriber / n sends reach n peers); readmission: the 96 departure/rejoin histories of C16 judged for 'the peer admitted again under its announced identity is registered: heard, reachable, labelled, connection kept'; predicted_identity: socket type (9) x an identity announced next to a generated one (+-1..4, big or little endian; only when generated identities are at most 8 bytes long) x 1..5 later anonymous peers, accepted or dialled: all registrations pairwise distinct, the announcing peer keeps its connection, its traffic and (ROUTER) its address; compat_table: the 144 SocketType::compatible queries (pure enumeration, a side check); distinct = distinct (configuration, plan, schedule, transport)",
        assumptions: &["'known mechanism' is read as NULL, PLAIN or CURVE in the greeting, as the statement says (the library then performs the NULL handshake)", "the RFC table used by the oracle lists PAIR-PAIR, PUB/XPUB-SUB/XSUB, REQ-REP/ROUTER, DEALER-REP/DEALER/ROUTER, ROUTER-ROUTER, PUSH-PULL"],
        strata: vec![
            Stratum { name: "handshake", quick: 150_000, thorough: (GRID_SIZE) * 10, exhaustive: (false, true), run: handshake, what: "configuration grid of scripted handshakes vs the admission predicate" },
            Stratum { name: "registration", quick: 60_000, thorough: 3_000_000, exhaustive: (false, false), run: registration, what: "2..4 admissible peers per socket, identities none / empty / distinct edge shapes, accepted or dialled: registered once, under the announced or a unique identity, and still peers afterwards" },
            Stratum { name: "readmission", quick: 9_600, thorough: 800_000, exhaustive: (false, false), run: super::c16::rejoin_registered, what: "a peer is admitted, leaves (close, cut, reset, or stays open and idle) and is admitted again under the identity it announced, at four timings, six socket types: the second admission registers it - it is heard, reachable, labelled with its identity and keeps its connection" },
            Stratum { name: "predicted_identity", quick: 30_000, thorough: 2_000_000, exhaustive: (false, false), run: predicted_identity, what: "an anonymous peer's generated identity is learnt from the monitor, a peer announces a neighbouring value, more anonymous peers join: generated identities stay fresh, the announcing peer stays a peer under its identity" },
            Stratum { name: "compat_table", quick: 144, thorough: 144, exhaustive: (true, true), run: compat_table, what: "144 compatibility queries: total, symmetric, equal to the RFC table" },
        ],
    }
}
