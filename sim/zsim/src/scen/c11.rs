//! C11 — PUB/XPUB deliver a message to a subscriber iff a subscription is a prefix.
use crate::fw::{Ctx, PropDef, Stratum};
use crate::refcodec as rc;
use crate::socks::{AnySock, Kind};
use crate::world::{self, from_zmq, show_msg, to_zmq, RawPeer, SwarmOpts};
use std::cell::RefCell;
use std::rc::Rc;
use zmq_simrt as rt;

pub const TOPICS: [&[u8]; 4] = [b"", b"a", b"ab", b"b"];
pub const PROBES: [&[u8]; 7] = [b"", b"a", b"ab", b"abc", b"b", b"ba", b"c"];

#[derive(Clone, Debug, PartialEq)]
pub enum Op {
    Sub(usize),
    Unsub(usize),
    Garbage(u8),
}
pub const NOPS: u64 = 9;

thread_local! {
    /// when set, the letters of the topic alphabet go on the wire as bytes that are not valid UTF-8
    /// (a -> ff, b -> fe, c -> c3: topics are byte strings, and the reference model is the same
    /// under any one-to-one renaming of bytes)
    pub static BINARY: std::cell::Cell<bool> = const { std::cell::Cell::new(false) };
}
pub fn wire_bytes(t: &[u8]) -> Vec<u8> {
    if !BINARY.with(|b| b.get()) {
        return t.to_vec();
    }
    t.iter()
        .map(|c| match c {
            b'a' => 0xff,
            b'b' => 0xfe,
            b'c' => 0xc3,
            x => *x,
        })
        .collect()
}
pub fn op_of(i: u64, g: u8) -> Op {
    match i {
        0..=3 => Op::Sub(i as usize),
        4..=7 => Op::Unsub(i as usize - 4),
        _ => Op::Garbage(g),
    }
}
impl Op {
    /// frames of the message a subscriber sends for this operation
    pub fn wire(&self) -> Vec<Vec<u8>> {
        match self {
            Op::Sub(t) => {
                let mut f = vec![1u8];
                f.extend(wire_bytes(TOPICS[*t]));
                vec![f]
            }
            Op::Unsub(t) => {
                let mut f = vec![0u8];
                f.extend(wire_bytes(TOPICS[*t]));
                vec![f]
            }
            Op::Garbage(g) => match g % 4 {
                0 => vec![vec![1, b'a'], b"x".to_vec()], // multi-frame
                1 => vec![vec![2, b'a']],                // first byte neither 0 nor 1
                2 => vec![vec![]],                       // empty frame
                _ => vec![vec![0xff]],
            },
        }
    }
}

/// A published message with first frame `pf`. Matching looks at the first frame only, so the
/// shapes vary what follows it: a second frame that would complete a longer topic if frames were
/// concatenated ('a' + 'b..' is not 'ab'), no further frame at all, an empty frame in between.
pub fn probe_msg(pf: &[u8], n: u32, label: &str) -> Vec<Vec<u8>> {
    let pf = &wire_bytes(pf)[..];
    match n % 3 {
        0 => vec![pf.to_vec(), format!("b{label}{n}").into_bytes()],
        1 => vec![pf.to_vec()],
        _ => vec![pf.to_vec(), vec![], format!("b{label}{n}").into_bytes()],
    }
}

/// reference model: multiset of topics per connection
#[derive(Default, Clone)]
pub struct Model(pub Vec<Vec<u8>>);
impl Model {
    pub fn apply(&mut self, op: &Op) {
        match op {
            Op::Sub(t) => self.0.push(TOPICS[*t].to_vec()),
            Op::Unsub(t) => {
                if let Some(p) = self.0.iter().position(|x| x == TOPICS[*t]) {
                    self.0.remove(p);
                }
            }
            Op::Garbage(_) => {}
        }
    }
    pub fn matches(&self, first_frame: &[u8]) -> bool {
        self.0.iter().any(|t| first_frame.starts_with(t))
    }
}

/// is `seq` an interleaving of the sequences in `parts` (each kept in order)?
fn is_interleaving(seq: &[Vec<Vec<u8>>], parts: &[Vec<Vec<Vec<u8>>>]) -> bool {
    fn go(seq: &[Vec<Vec<u8>>], parts: &[Vec<Vec<Vec<u8>>>], idx: &mut Vec<usize>, pos: usize, memo: &mut std::collections::HashSet<Vec<usize>>) -> bool {
        if pos == seq.len() {
            return idx.iter().zip(parts.iter()).all(|(i, p)| *i == p.len());
        }
        if !memo.insert(idx.clone()) {
            return false;
        }
        for k in 0..parts.len() {
            if idx[k] < parts[k].len() && parts[k][idx[k]] == seq[pos] {
                idx[k] += 1;
                if go(seq, parts, idx, pos + 1, memo) {
                    return true;
                }
                idx[k] -= 1;
            }
        }
        false
    }
    go(seq, parts, &mut vec![0; parts.len()], 0, &mut Default::default())
}

struct Out {
    viol: Vec<(&'static str, String)>,
    done: bool,
    probes_judged: u32,
    matched: u32,
    unmatched: u32,
}

fn run_world(ctx: &mut Ctx, kind: Kind, histories: Vec<Vec<Op>>, cut_points: Vec<usize>, successor: bool) {
    let nsub = histories.len();
    // with a successor: does subscriber 0 announce an identity that its successor announces too,
    // and is it still connected when the successor arrives?
    let named = successor && ctx.plan_bool();
    let overlap = named && ctx.plan_bool();
    let out = Rc::new(RefCell::new(Out { viol: vec![], done: false, probes_judged: 0, matched: 0, unmatched: 0 }));
    let o2 = out.clone();
    let h2 = histories.clone();
    let stypes: Vec<&'static str> = (0..nsub).map(|_| ["SUB", "XSUB"][ctx.plan(2) as usize]).collect();
    rt::task::spawn_local("app", async move {
        let mut sock = AnySock::new(kind, None);
        let ep = sock.bind("tcp://127.0.0.1:0").await.expect("bind").to_string();
        let mut peers = Vec::new();
        for i in 0..nsub {
            let mut p = RawPeer::connect(&ep).expect("connect");
            p.hello(stypes[i], if named && i == 0 { Some(&b"durable"[..]) } else { None }).await.expect("hello");
            // a healthy subscriber: its pipe accepts every write at once
            p.conn.set_io(1, |io| io.wyield_pm = 0);
            p.conn.set_cap(1, 1 << 40);
            peers.push(p);
        }
        rt::task::idle().await;
        let mut models: Vec<Model> = vec![Model::default(); nsub];
        let mut delivered_seen: Vec<usize> = vec![0; nsub];
        let mut xpub_expected: Vec<Vec<Vec<Vec<u8>>>> = vec![Vec::new(); nsub];
        let mut xpub_got: Vec<Vec<Vec<u8>>> = Vec::new();
        let maxlen = h2.iter().map(|h| h.len()).max().unwrap_or(0);
        let mut probe_no = 0u32;
        for step in 0..=maxlen {
            // a quiescent point after `step` operations of every subscriber
            if step == maxlen || cut_points.contains(&step) {
                if kind == Kind::Xpub {
                    loop {
                        match rt::future::or_idle(sock.recv()).await {
                            Some(Ok(m)) => xpub_got.push(from_zmq(&m)),
                            Some(Err(e)) => {
                                o2.borrow_mut().viol.push(("xpub_recv_error", e.to_string()));
                                return world::park().await;
                            }
                            None => break,
                        }
                    }
                } else {
                    rt::task::idle().await;
                }
                // publish every probe first-frame; each carries a unique second frame
                let mut expect: Vec<Vec<Vec<Vec<u8>>>> = vec![Vec::new(); nsub];
                for pf in PROBES.iter() {
                    let msg = probe_msg(pf, probe_no, "#");
                    probe_no += 1;
                    for i in 0..nsub {
                        if models[i].matches(pf) {
                            expect[i].push(msg.clone());
                        }
                    }
                    if let Err(e) = sock.send(to_zmq(&msg)).await {
                        o2.borrow_mut().viol.push(("publish_failed", format!("publishing {} failed: {e}", show_msg(&msg))));
                        return world::park().await;
                    }
                }
                rt::task::idle().await;
                for i in 0..nsub {
                    let got = peers[i].inbound().messages();
                    let new = &got[delivered_seen[i].min(got.len())..];
                    let mut o = o2.borrow_mut();
                    o.probes_judged += PROBES.len() as u32;
                    o.matched += expect[i].len() as u32;
                    o.unmatched += (PROBES.len() - expect[i].len()) as u32;
                    if new != &expect[i][..] {
                        // classify
                        let clause = if new.len() > expect[i].len() && expect[i].iter().all(|e| new.contains(e)) {
                            if new.iter().any(|m| new.iter().filter(|x| *x == m).count() > 1) {
                                "delivered_more_than_once"
                            } else {
                                "delivered_without_matching_subscription"
                            }
                        } else if new.len() < expect[i].len() {
                            "matching_message_not_delivered"
                        } else {
                            "delivery_differs_from_model"
                        };
                        o.viol.push((clause, format!("{} subscriber {i} after ops {:?} (model {:?}): got first frames {:?}, expected {:?}", kind.name(), &h2[i][..step.min(h2[i].len())], models[i].0.iter().map(|t| String::from_utf8_lossy(t).to_string()).collect::<Vec<_>>(), new.iter().map(|m| String::from_utf8_lossy(&m[0]).to_string()).collect::<Vec<_>>(), expect[i].iter().map(|m| String::from_utf8_lossy(&m[0]).to_string()).collect::<Vec<_>>())));
                        drop(o);
                        return world::park().await;
                    }
                    delivered_seen[i] = got.len();
                }
            }
            if step == maxlen {
                break;
            }
            for i in 0..nsub {
                if let Some(op) = h2[i].get(step) {
                    let w = op.wire();
                    if peers[i].send_msg(&w).await.is_err() {
                        o2.borrow_mut().viol.push(("harness", "subscriber write failed".into()));
                        return world::park().await;
                    }
                    models[i].apply(op);
                    xpub_expected[i].push(w);
                }
            }
        }
        if kind == Kind::Xpub {
            let total: usize = xpub_expected.iter().map(|x| x.len()).sum();
            if xpub_got.len() != total || !is_interleaving(&xpub_got, &xpub_expected) {
                o2.borrow_mut().viol.push(("xpub_recv_not_verbatim_in_order", format!("XPUB recv returned {:?}; the subscribers sent {:?}", xpub_got.iter().map(|m| show_msg(m)).collect::<Vec<_>>(), xpub_expected.iter().map(|p| p.iter().map(|m| show_msg(m)).collect::<Vec<_>>()).collect::<Vec<_>>())));
                return world::park().await;
            }
        }
        // every subscriber's stream must be well-formed (C01 invariant)
        for (i, p) in peers.iter().enumerate() {
            let w = crate::oracle::check_library_stream(&p.inbound_raw(), Some(kind.name()), Some(None));
            if let Some(pr) = w.problems.first() {
                o2.borrow_mut().viol.push(("wire_malformed", format!("stream to subscriber {i}: {pr}")));
            }
            if w.parsed.partial != 0 {
                o2.borrow_mut().viol.push(("partial_message_at_quiescence", format!("subscriber {i} accepts every write yet its stream ends inside a message")));
            }
        }
        // a successor: subscriber 0 leaves, a fresh connection arrives. Subscriptions are counted per
        // connection, so the newcomer starts with none (nothing is delivered to it) and then gets
        // exactly what it subscribes to
        if successor {
            let gone = peers.remove(0);
            let mut still_open = None;
            if overlap {
                rt::count("probe_successor_while_predecessor_still_connected");
                still_open = Some(gone);
            } else {
                gone.close();
            }
            rt::task::idle().await;
            if kind == Kind::Xpub {
                while let Some(Ok(_)) = rt::future::or_idle(sock.recv()).await {}
            }
            let mut p = RawPeer::connect(&ep).expect("connect");
            p.hello(stypes[0], if named { Some(&b"durable"[..]) } else { None }).await.expect("hello");
            p.conn.set_io(1, |io| io.wyield_pm = 0);
            p.conn.set_cap(1, 1 << 40);
            rt::task::idle().await;
            if kind == Kind::Xpub {
                while let Some(Ok(_)) = rt::future::or_idle(sock.recv()).await {}
            }
            for round in 0..2 {
                let mut expect: Vec<Vec<Vec<u8>>> = Vec::new();
                let before = p.inbound().messages().len();
                for pf in PROBES.iter() {
                    let msg = probe_msg(pf, probe_no, "s");
                    probe_no += 1;
                    if round == 1 && pf.starts_with(b"a") {
                        expect.push(msg.clone());
                    }
                    if let Err(e) = sock.send(to_zmq(&msg)).await {
                        o2.borrow_mut().viol.push(("publish_failed", e.to_string()));
                        return world::park().await;
                    }
                }
                rt::task::idle().await;
                let got = p.inbound().messages();
                if got[before..] != expect[..] {
                    let clause = if round == 0 { "fresh_subscriber_inherits_subscriptions" } else { "fresh_subscriber_delivery_differs_from_model" };
                    o2.borrow_mut().viol.push((clause, format!("{}: subscriber 0 (history {:?}) left and a fresh connection took its place; {} it received first frames {:?}, expected {:?}", kind.name(), h2[0], if round == 0 { "before subscribing to anything" } else { "after subscribing to 'a'" }, got[before..].iter().map(|m| String::from_utf8_lossy(&m[0]).to_string()).collect::<Vec<_>>(), expect.iter().map(|m| String::from_utf8_lossy(&m[0]).to_string()).collect::<Vec<_>>())));
                    return world::park().await;
                }
                if round == 0 {
                    let _ = p.send_msg(&Op::Sub(1).wire()).await;
                    rt::task::idle().await;
                    if kind == Kind::Xpub {
                        while let Some(Ok(_)) = rt::future::or_idle(sock.recv()).await {}
                    }
                }
            }
            rt::count("probe_successor_judged");
            peers.push(p);
            drop(still_open);
        }
        o2.borrow_mut().done = true;
        world::park().await;
        drop(sock);
        drop(peers);
    });
    let end = ctx.sim.run(400_000);
    if end == rt::RunEnd::Budget {
        ctx.violation("no_quiescence", format!("{} world did not become quiescent", kind.name()));
    }
    let o = out.borrow();
    let had = !o.viol.is_empty();
    for (c, d) in o.viol.clone() {
        if c == "harness" {
            ctx.harness_error(d);
        } else {
            ctx.violation(c, d);
        }
    }
    if !o.done && !had && end == rt::RunEnd::Quiescent {
        ctx.violation("stuck", format!("{} script did not finish", kind.name()));
    }
    ctx.probe_n("probe_matched", o.matched as u64);
    ctx.probe_n("probe_unmatched", o.unmatched as u64);
    if o.matched > 0 && o.unmatched > 0 {
        ctx.nontrivial();
    }
    if ctx.want_sample {
        ctx.out.sample = Some(format!("{} with {} subscribers; histories {:?}; probes judged {}", kind.name(), nsub, histories, o.probes_judged));
    }
    drop(o);
    ctx.check_panics();
}

pub const NHIST4: u64 = 1 + 9 + 81 + 729 + 6561;
/// history number i in the enumeration of all histories of length <= 4 over the 9 operations
fn history(mut i: u64, g: u8) -> Vec<Op> {
    let mut len = 0;
    let mut n = 1u64;
    while i >= n {
        i -= n;
        n *= NOPS;
        len += 1;
    }
    (0..len).map(|k| op_of((i / NOPS.pow(k)) % NOPS, g.wrapping_add(k as u8))).collect()
}

/// every history of length <= 4, one subscriber, undisturbed transport; PUB and XPUB
fn hist_enum(ctx: &mut Ctx) {
    // indices 0..2*NHIST4: PUB then XPUB with the ASCII alphabet; 2*NHIST4..4*NHIST4: the same with
    // topics and first frames that are not valid UTF-8
    BINARY.with(|b| b.set(ctx.idx >= 2 * NHIST4));
    let kind = if ctx.idx % (2 * NHIST4) < NHIST4 { Kind::Pub } else { Kind::Xpub };
    let h = history(ctx.idx % NHIST4, (ctx.idx % 4) as u8);
    world::plain(ctx);
    ctx.out.extra_shape = ctx.idx;
    let cuts = if h.len() >= 2 { vec![h.len() / 2] } else { vec![] };
    run_world(ctx, kind, vec![h], cuts, false);
}

fn hist_random(ctx: &mut Ctx) {
    let kind = if ctx.idx % 2 == 0 { Kind::Pub } else { Kind::Xpub };
    BINARY.with(|b| b.set((ctx.idx / 2) % 2 == 1));
    world::swarm(ctx, SwarmOpts::default());
    let nsub = 1 + ctx.plan(3) as usize;
    let hs: Vec<Vec<Op>> = (0..nsub).map(|_| (0..ctx.plan(9)).map(|_| op_of(ctx.plan(NOPS), ctx.plan(4) as u8)).collect()).collect();
    let maxlen = hs.iter().map(|h| h.len()).max().unwrap_or(0);
    let cuts: Vec<usize> = (0..2).map(|_| ctx.plan(maxlen as u64 + 1) as usize).collect();
    let successor = ctx.plan(3) == 0;
    run_world(ctx, kind, hs, cuts, successor);
}


/// subscribers join, subscribe and unsubscribe as concurrent tasks while the publisher keeps
/// publishing; only the final state is judged (probes after the world has settled), plus the
/// well-formedness of every subscriber's stream and the absence of hangs
fn hist_concurrent(ctx: &mut Ctx) {
    let kind = if ctx.idx % 2 == 0 { Kind::Pub } else { Kind::Xpub };
    BINARY.with(|b| b.set((ctx.idx / 2) % 2 == 1));
    world::swarm(ctx, SwarmOpts::default());
    let nsub = 2 + ctx.plan(4) as usize;
    let hs: Vec<Vec<Op>> = (0..nsub).map(|_| (0..ctx.plan(7)).map(|_| op_of(ctx.plan(NOPS), ctx.plan(4) as u8)).collect()).collect();
    let starts: Vec<u32> = (0..nsub).map(|_| ctx.plan(30) as u32).collect();
    let gaps: Vec<u32> = (0..nsub).map(|_| ctx.plan(4) as u32).collect();
    let filler = 5 + ctx.plan(40) as usize;
    let out = Rc::new(RefCell::new(Out { viol: vec![], done: false, probes_judged: 0, matched: 0, unmatched: 0 }));
    let o2 = out.clone();
    let h2 = hs.clone();
    let starts_s = starts.clone();
    rt::task::spawn_local("app", async move {
        let mut sock = AnySock::new(kind, None);
        let ep = sock.bind("tcp://127.0.0.1:0").await.expect("bind").to_string();
        let peers: Rc<RefCell<Vec<Option<RawPeer>>>> = Rc::new(RefCell::new((0..nsub).map(|_| None).collect()));
        let finished = Rc::new(RefCell::new(0usize));
        for i in 0..nsub {
            let (ep, peers, fin, h, start, gap) = (ep.clone(), peers.clone(), finished.clone(), h2[i].clone(), starts[i], gaps[i]);
            rt::task::spawn_local("subscriber", async move {
                for _ in 0..start {
                    rt::task::yield_now().await;
                }
                let Ok(mut p) = RawPeer::connect(&ep) else { return };
                let _ = p.hello(if i % 2 == 0 { "SUB" } else { "XSUB" }, None).await;
                p.conn.set_io(1, |io| io.wyield_pm = 0);
                p.conn.set_cap(1, 1 << 40);
                for op in &h {
                    let _ = p.send_msg(&op.wire()).await;
                    for _ in 0..gap {
                        rt::task::yield_now().await;
                    }
                }
                peers.borrow_mut()[i] = Some(p);
                *fin.borrow_mut() += 1;
            });
        }
        // publish filler while the subscribers come and go through their histories
        for n in 0..filler {
            let msg = probe_msg(PROBES[n % PROBES.len()], n as u32, "filler");
            if let Err(e) = sock.send(to_zmq(&msg)).await {
                o2.borrow_mut().viol.push(("publish_failed", e.to_string()));
                return world::park().await;
            }
            if kind == Kind::Xpub && n % 3 == 0 {
                let _ = rt::future::poll_budget(sock.recv(), 1).await;
            }
            rt::task::yield_now().await;
        }
        // settle: every subscriber has sent its history and it has been processed
        for _ in 0..50 {
            if kind == Kind::Xpub {
                while let Some(r) = rt::future::or_idle(sock.recv()).await {
                    if r.is_err() {
                        break;
                    }
                }
            } else {
                rt::task::idle().await;
            }
            if *finished.borrow() == nsub {
                break;
            }
        }
        if kind == Kind::Xpub {
            while let Some(r) = rt::future::or_idle(sock.recv()).await {
                if r.is_err() {
                    break;
                }
            }
        }
        rt::task::idle().await;
        let peers = peers.borrow();
        let before: Vec<usize> = peers.iter().map(|p| p.as_ref().map(|p| p.inbound().messages().len()).unwrap_or(0)).collect();
        let mut expect: Vec<Vec<Vec<Vec<u8>>>> = vec![Vec::new(); nsub];
        for (k, pf) in PROBES.iter().enumerate() {
            let msg = probe_msg(pf, k as u32, "final");
            for i in 0..nsub {
                let mut m = Model::default();
                for op in &h2[i] {
                    m.apply(op);
                }
                if m.matches(pf) {
                    expect[i].push(msg.clone());
                }
            }
            if let Err(e) = sock.send(to_zmq(&msg)).await {
                o2.borrow_mut().viol.push(("publish_failed", e.to_string()));
                return world::park().await;
            }
        }
        rt::task::idle().await;
        for i in 0..nsub {
            let Some(p) = peers[i].as_ref() else {
                o2.borrow_mut().viol.push(("harness", format!("subscriber {i} never finished")));
                continue;
            };
            let got = p.inbound().messages();
            let new = got[before[i].min(got.len())..].to_vec();
            let mut o = o2.borrow_mut();
            o.matched += expect[i].len() as u32;
            o.unmatched += (PROBES.len() - expect[i].len()) as u32;
            if new != expect[i] {
                let clause = if new.len() < expect[i].len() { "matching_message_not_delivered" } else if new.len() > expect[i].len() { "delivered_without_matching_subscription" } else { "delivery_differs_from_model" };
                o.viol.push((clause, format!("{} subscriber {i} (concurrent history {:?}): final probes delivered {:?}, expected {:?}", kind.name(), h2[i], new.iter().map(|m| String::from_utf8_lossy(&m[0]).to_string()).collect::<Vec<_>>(), expect[i].iter().map(|m| String::from_utf8_lossy(&m[0]).to_string()).collect::<Vec<_>>())));
            }
            let w = crate::oracle::check_library_stream(&p.inbound_raw(), Some(kind.name()), Some(None));
            if let Some(pr) = w.problems.first() {
                o.viol.push(("wire_malformed", format!("stream to subscriber {i}: {pr}")));
            }
        }
        o2.borrow_mut().done = true;
        drop(peers);
        world::park().await;
        drop(sock);
    });
    let end = ctx.sim.run(600_000);
    if end == rt::RunEnd::Budget {
        ctx.violation("no_quiescence", format!("{} concurrent world did not become quiescent", kind.name()));
    }
    let o = out.borrow();
    let had = !o.viol.is_empty();
    for (c, d) in o.viol.clone() {
        if c == "harness" {
            ctx.harness_error(d);
        } else {
            ctx.violation(c, d);
        }
    }
    if !o.done && !had && end == rt::RunEnd::Quiescent {
        ctx.violation("stuck", format!("{} concurrent script did not finish", kind.name()));
    }
    if o.matched > 0 && o.unmatched > 0 {
        ctx.nontrivial();
    }
    if ctx.want_sample {
        ctx.out.sample = Some(format!("{} with {nsub} concurrent subscribers (start delays {:?}), {filler} filler publishes; histories {:?}", kind.name(), starts_s, hs));
    }
    drop(o);
    ctx.check_panics();
}

pub fn def() -> PropDef {
    PropDef {
        id: "C11",
        level: "exploration",
        rule: "hist_enum: case index enumerates every history of length <= 4 over the 9 subscriber operations {subscribe/unsubscribe x topics '', 'a', 'ab', 'b', garbage} for PUB (indices 0..7381) and XPUB (7382..14763), then both again with the letters of the alphabet sent as bytes that are not valid UTF-8 (ff, fe, c3); the random strata use that alphabet in every other case; at a mid-point and at the end the publisher sends all 7 probe first-frames {'', a, ab, abc, b, ba, c} and each subscriber's tap is compared with the multiset-prefix reference model (probe messages alternate between one frame, two frames whose second would complete a longer topic if frames were concatenated, and three frames with an empty one in between); hist_random: 1..3 subscribers, histories <= 8, drawn quiescent points, random transport and schedule; in one case in three subscriber 0 then leaves and a fresh connection takes its place, which must receive nothing before it subscribes and exactly its matches afterwards (in half of these the two connections announce the same identity, and in half of those the first is still connected when the second arrives); non-trivial = at least one probe matched and one did not; distinct = distinct (case, plan, schedule, transport)",
        assumptions: &["matching is compared only at quiescent points (all subscription messages sent so far have been processed)", "subscribers accept every write (their pipes never answer Pending on writes), so nothing may be dropped"],
        strata: vec![
            Stratum { name: "hist_enum", quick: 4 * NHIST4, thorough: 4 * NHIST4, exhaustive: (true, true), run: hist_enum, what: "all 7382 histories <= 4 for PUB and for XPUB, one subscriber, with an ASCII and with a non-UTF-8 topic alphabet" },
            Stratum { name: "hist_concurrent", quick: 60_000, thorough: (1_500_000) * 3, exhaustive: (false, false), run: hist_concurrent, what: "2..5 subscribers joining and subscribing concurrently with continuous publishing; final state judged" },
            Stratum { name: "recovery", quick: 400, thorough: 30_000, exhaustive: (false, false), run: super::c12::recovery, what: "matching is about subscriptions, not about a connection's past: a subscriber that stalled while a thousand-odd small messages were published and has caught up receives what is published afterwards" },
            Stratum { name: "hist_random", quick: 100_000, thorough: (1_500_000) * 3, exhaustive: (false, false), run: hist_random, what: "1..3 subscribers, longer histories, random transport" },
        ],
    }
}
