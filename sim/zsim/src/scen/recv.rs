//! Receive-side world shared by C05 (exactly once / whole / in order), C14 (abandoned recv) and the
//! L2 part of C06: one receiving socket of any fair-queue type, 1..4 scripted senders with tagged
//! messages, arrival schedules from the full knob set, late joiners, orderly closes, cuts, resets.
use crate::fw::Ctx;
use crate::refcodec as rc;
use crate::socks::{AnySock, Kind};
use crate::world::{self, from_zmq, show_msg, tag_of, tagged, to_zmq, RawPeer, SwarmOpts};
use crate::socks::AnySock as _AnySockAlias;
use std::cell::RefCell;
use std::rc::Rc;
use zmq_simrt as rt;

#[derive(Clone, Copy, Debug, PartialEq, Eq)]
pub enum End {
    Keep,
    Close,
    /// write only this many bytes of the final message, then close
    CutMid,
    Reset,
}

#[derive(Clone, Debug)]
pub struct SenderPlan {
    pub stype: &'static str,
    pub identity: Option<Vec<u8>>,
    pub start_yields: u32,
    pub shapes: Vec<Vec<usize>>,
    /// number of messages coalesced into one write
    pub batch: usize,
    pub gap_yields: u32,
    pub hello_with_first: bool,
    pub ready_again_at: Option<usize>,
    pub end: End,
    /// for REP receivers: index of a message sent as a single frame (rejected by the envelope rule)
    pub reject_at: Option<usize>,
    /// this sender is the same peer coming back: it connects, under the same announced identity,
    /// once sender `rejoin_of` has ended its connection
    pub rejoin_of: Option<usize>,
}

#[derive(Default)]
pub struct Shared {
    pub results: Vec<(u64, Result<Vec<Vec<u8>>, String>)>,
    pub abandoned: u32,
    pub cancel_positions: Vec<usize>,
    pub gave_up: bool,
    pub app_parked_in_recv: bool,
    pub endpoint: String,
    pub peers: Vec<Option<std::sync::Arc<rt::net::Conn>>>,
    pub peer_handles: Vec<Option<RawPeer>>,
    pub reply_errors: Vec<String>,
    pub departed: Vec<bool>,
}

pub struct RecvCfg {
    pub kind: Kind,
    pub faults: bool,
    pub cancel: bool,
    pub max_senders: u64,
    pub max_msgs: u64,
    pub big: bool,
    /// let some departing peers with an announced identity come back under it
    pub rejoin: bool,
    /// a long history: every sender has 90..210 small messages (things a socket does "every n-th
    /// message" or after a counter wraps only show then); with `cancel`, recv calls keep being
    /// abandoned all the way through
    pub long: bool,
}

pub struct RecvOut {
    pub kind: Kind,
    pub plans: Vec<SenderPlan>,
    pub shared: Rc<RefCell<Shared>>,
    pub end: rt::RunEnd,
}

fn draw_shape(ctx: &Ctx, big: bool) -> Vec<usize> {
    let nframes = 1 + ctx.plan(4) as usize;
    let mut v = Vec::new();
    for _ in 0..nframes {
        let c = ctx.plan(10);
        let len = match c {
            0..=4 => ctx.plan(20) as usize,
            5 => ctx.plan_pick(&[254usize, 255, 256, 257]),
            6 => 300 + ctx.plan(2000) as usize,
            7 if big => ctx.plan_pick(&[8191usize, 8192, 8193, 20000]),
            8 if big && ctx.plan(8) == 0 => ctx.plan_pick(&[65536usize, 131072, 200_000, (1 << 20) - 1, 1 << 20, (1 << 20) + 1, 2 << 20]),
            _ => ctx.plan(64) as usize,
        };
        v.push(len);
    }
    // one message in eight ends in one or two empty frames (the decoder has to complete a frame
    // of zero bytes with nothing behind it in the buffer)
    if ctx.plan(8) == 0 {
        for _ in 0..1 + ctx.plan(2) {
            v.push(crate::world::TAIL_EMPTY);
        }
    }
    v
}

pub fn draw_plans(ctx: &mut Ctx, cfg: &RecvCfg) -> Vec<SenderPlan> {
    let n = 1 + ctx.plan(cfg.max_senders) as usize;
    let mut plans = Vec::new();
    for i in 0..n {
        let stypes = cfg.kind.peers();
        let stype = stypes[ctx.plan(stypes.len() as u64) as usize];
        let identity = match ctx.plan(4) {
            0 => None,
            1 => Some(vec![b'a' + i as u8]),
            2 => Some((0..(1 + ctx.plan(40) as usize)).map(|j| (i * 50 + j + 1) as u8).collect()),
            // present but empty = anonymous: a unique identity must be assigned
            _ => Some(vec![]),
        };
        let nm = if cfg.long { 90 + ctx.plan(121) as usize } else { ctx.plan(cfg.max_msgs + 1) as usize };
        let shapes: Vec<Vec<usize>> = if cfg.long { (0..nm).map(|k| if k % 16 == 15 { draw_shape(ctx, false) } else { vec![(k * 7) % 23] }).collect() } else { (0..nm).map(|_| draw_shape(ctx, cfg.big)).collect() };
        let end = if cfg.faults { [End::Keep, End::Close, End::CutMid, End::Reset][ctx.plan(4) as usize] } else { [End::Keep, End::Close][ctx.plan(2) as usize] };
        plans.push(SenderPlan {
            stype,
            identity,
            start_yields: ctx.plan(12) as u32,
            shapes,
            batch: 1 + ctx.plan(4) as usize,
            gap_yields: ctx.plan(4) as u32,
            hello_with_first: ctx.plan_bool(),
            ready_again_at: if ctx.plan(4) == 0 && nm > 0 { Some(ctx.plan(nm as u64) as usize) } else { None },
            end,
            reject_at: if cfg.kind == Kind::Rep && nm > 0 && ctx.plan(4) == 0 { Some(ctx.plan(nm as u64) as usize) } else { None },
            rejoin_of: None,
        });
    }
    // some departing peers with an announced identity come back under it
    for i in 0..(if cfg.rejoin { n } else { 0 }) {
        let p = plans[i].clone();
        if p.end != End::Keep && p.identity.as_ref().map(|x| !x.is_empty()).unwrap_or(false) && ctx.plan(3) == 0 {
            let nm = 1 + ctx.plan(4) as usize;
            plans.push(SenderPlan { shapes: (0..nm).map(|_| draw_shape(ctx, cfg.big)).collect(), start_yields: ctx.plan(6) as u32, end: End::Keep, reject_at: None, ready_again_at: None, rejoin_of: Some(i), ..p });
        }
    }
    plans
}

/// frames the scripted sender `i` puts on the wire for its message number `seq`
pub fn wire_frames(kind: Kind, p: &SenderPlan, i: usize, seq: usize) -> Vec<Vec<u8>> {
    let payload = tagged(i as u16, seq as u32, &p.shapes[seq]);
    match kind {
        Kind::Rep => {
            if p.reject_at == Some(seq) {
                // a single-frame request: REP's envelope rule rejects it
                vec![payload.concat()]
            } else {
                let mut f = vec![Vec::new()];
                f.extend(payload);
                f
            }
        }
        _ => payload,
    }
}

/// what `recv` must return for a message with these wire frames (None = rejected with one error)
pub fn expected_recv(kind: Kind, wire: &[Vec<u8>], identity: Option<&[u8]>) -> Option<Vec<Vec<u8>>> {
    match kind {
        Kind::Rep => {
            if wire.len() < 2 {
                return None;
            }
            let at = wire.iter().position(|f| f.is_empty()).map(|x| x + 1).unwrap_or(1);
            Some(wire[at..].to_vec())
        }
        Kind::Router => {
            let mut v = vec![identity.map(|x| x.to_vec()).unwrap_or_default()];
            v.extend(wire.iter().cloned());
            Some(v)
        }
        _ => Some(wire.to_vec()),
    }
}

pub fn run(ctx: &mut Ctx, cfg: RecvCfg) -> RecvOut {
    world::swarm(ctx, SwarmOpts { tiny_chunks: !cfg.big && !cfg.long, allow_spurious: true, ..Default::default() });
    let plans = draw_plans(ctx, &cfg);
    let mut cancel_budgets: Vec<u32> = if cfg.cancel { (0..24).map(|_| ctx.plan(6) as u32).collect() } else { vec![] };
    if cfg.cancel && cfg.long {
        // abandoned calls all the way through the history (finitely many: the run must end)
        cancel_budgets = (0..1500).map(|i| cancel_budgets[i % 24]).collect();
    }
    let replies = matches!(cfg.kind, Kind::Router | Kind::Dealer) && ctx.plan_bool();
    let shared = Rc::new(RefCell::new(Shared::default()));
    {
        let mut s = shared.borrow_mut();
        s.peers = vec![None; plans.len()];
        s.peer_handles = (0..plans.len()).map(|_| None).collect();
        s.departed = vec![false; plans.len()];
    }
    let kind = cfg.kind;
    let sh = shared.clone();
    let plans2 = plans.clone();
    rt::task::spawn_local("app", async move {
        let mut sock = AnySock::new(kind, None);
        let ep = sock.bind("tcp://127.0.0.1:0").await.expect("bind").to_string();
        sh.borrow_mut().endpoint = ep.clone();
        for (i, p) in plans2.iter().cloned().enumerate() {
            let ep = ep.clone();
            let sh = sh.clone();
            rt::task::spawn_local("sender", async move {
                if let Some(orig) = p.rejoin_of {
                    // wait until the first connection of this peer has ended
                    for _ in 0..100_000 {
                        if sh.borrow().departed[orig] {
                            break;
                        }
                        rt::task::yield_now().await;
                    }
                    if !sh.borrow().departed[orig] {
                        return;
                    }
                    rt::count("fault_peer_rejoins_same_identity");
                }
                for _ in 0..p.start_yields {
                    rt::task::yield_now().await;
                }
                let Ok(mut peer) = RawPeer::connect(&ep) else { return };
                sh.borrow_mut().peers[i] = Some(peer.conn.clone());
                let mut hello = rc::greeting_default();
                hello.extend(rc::ready_for(p.stype, p.identity.as_deref()));
                let mut pending: Vec<u8> = Vec::new();
                if p.hello_with_first {
                    pending = hello;
                } else if peer.send(&hello).await.is_err() {
                    return;
                }
                let n = p.shapes.len();
                let mut in_batch = 0;
                for seq in 0..n {
                    if p.ready_again_at == Some(seq) {
                        pending.extend(rc::ready_for(p.stype, None));
                    }
                    let wire = wire_frames(kind, &p, i, seq);
                    let enc = rc::encode_msg(&wire);
                    let last = seq + 1 == n;
                    if last && p.end == End::CutMid {
                        let cut = 1 + (enc.len() - 1) * 2 / 3;
                        pending.extend(&enc[..cut.min(enc.len() - 1).max(1)]);
                        rt::count("fault_cut_mid_message");
                    } else {
                        pending.extend(enc);
                    }
                    in_batch += 1;
                    if in_batch >= p.batch || last {
                        in_batch = 0;
                        if peer.send(&pending).await.is_err() {
                            return;
                        }
                        pending.clear();
                        for _ in 0..p.gap_yields {
                            rt::task::yield_now().await;
                        }
                    }
                }
                if !pending.is_empty() {
                    let _ = peer.send(&pending).await;
                }
                // a peer that departs does so after the handshake (it has seen the socket's READY):
                // leaving earlier is a handshake-stage fault, which C16/C20 cover, and such a
                // peer never was a "connected peer" in the sense of the statement
                if p.end != End::Keep && peer.wait_hello().await.is_err() {
                    return;
                }
                match p.end {
                    End::Keep => {
                        sh.borrow_mut().peer_handles[i] = Some(peer);
                    }
                    End::Close | End::CutMid => peer.close(),
                    End::Reset => {
                        // let the data be consumed first in some runs, not in others
                        peer.reset();
                        sh.borrow_mut().peer_handles[i] = Some(peer);
                    }
                }
                sh.borrow_mut().departed[i] = p.end != End::Keep;
            });
        }
        if kind == Kind::Sub {
            let _ = sock.subscribe("").await;
        }
        let mut errs = 0u32;
        let mut cancels = cancel_budgets.into_iter();
        let app_replies = replies;
        loop {
            let r = match cancels.next() {
                Some(k) => {
                    let r = rt::future::poll_budget(sock.recv(), k).await;
                    if r.is_none() {
                        sh.borrow_mut().abandoned += 1;
                        rt::count("fault_recv_cancelled");
                        rt::task::yield_now().await;
                        continue;
                    }
                    r.unwrap()
                }
                None => {
                    sh.borrow_mut().app_parked_in_recv = true;
                    let r = sock.recv().await;
                    sh.borrow_mut().app_parked_in_recv = false;
                    r
                }
            };
            let seq = rt::next_seq();
            match r {
                Ok(m) => {
                    let frames = from_zmq(&m);
                    sh.borrow_mut().results.push((seq, Ok(frames.clone())));
                    if kind == Kind::Rep {
                        let reply = to_zmq(&[b"re".to_vec(), frames.last().cloned().unwrap_or_default()]);
                        if let Err(e) = sock.send(reply).await {
                            sh.borrow_mut().reply_errors.push(e.to_string());
                        }
                    }
                    // a server that answers between its recv calls: to the sender (ROUTER) or to
                    // whoever is next (DEALER) - peers that pipelined and left are answered too, and
                    // those sends fail; whatever they do must not cost a message still unread
                    if app_replies && kind == Kind::Router && frames.len() >= 2 {
                        let _ = sock.send(to_zmq(&[frames[0].clone(), b"re".to_vec()])).await;
                        rt::count("probe_router_replied_between_recvs");
                    }
                    if app_replies && kind == Kind::Dealer {
                        let _ = sock.send(to_zmq(&[b"re".to_vec()])).await;
                    }
                }
                Err(e) => {
                    sh.borrow_mut().results.push((seq, Err(e.to_string())));
                    errs += 1;
                    if errs > 60 {
                        sh.borrow_mut().gave_up = true;
                        break;
                    }
                    rt::task::yield_now().await;
                }
            }
        }
        // keep the socket alive until the end of the run
        futures::future::pending::<()>().await;
        drop(sock);
    });
    let end = ctx.sim.run(400_000);
    RecvOut { kind, plans, shared, end }
}

/// The C05 oracle (DESIGN B1) over a finished run. `strict_errors`: also bound the number of
/// errors by rejects (used when no connection-level fault was injected).
pub fn check_delivery(ctx: &mut Ctx, out: &RecvOut) {
    let kind = out.kind;
    let sh = out.shared.borrow();
    if out.end == rt::RunEnd::Budget {
        ctx.violation("no_quiescence", format!("{} receiver world did not become quiescent within the step budget (spin or livelock)", kind.name()));
        return;
    }
    // ground truth per connection from the taps
    let mut sent: Vec<Vec<Option<Vec<Vec<u8>>>>> = Vec::new(); // expected recv value per complete message, None = reject
    let mut hard_fault = vec![false; out.plans.len()];
    let mut router_ids: Vec<Option<Vec<u8>>> = vec![None; out.plans.len()];
    for (i, p) in out.plans.iter().enumerate() {
        let mut exp = Vec::new();
        if let Some(conn) = &sh.peers[i] {
            let tap = conn.tap_from(0);
            let parsed = rc::parse_stream(&tap);
            if parsed.error.is_some() {
                ctx.harness_error(format!("scripted sender {i} wrote a malformed stream: {:?}", parsed.error));
            }
            for m in parsed.messages() {
                exp.push(expected_recv(kind, &m, p.identity.as_deref()));
            }
            if parsed.partial > 0 {
                ctx.probe("partial_message_left_on_wire");
            }
            // the library's side of this connection must be a well-formed stream too (C01 invariant)
            let w = crate::oracle::check_library_stream(&conn.tap_from(1), Some(kind.name()), Some(None));
            for pr in w.problems {
                ctx.violation("wire_malformed", format!("{} wrote a malformed stream to peer {i}: {pr}", kind.name()));
            }
        }
        if p.end == End::Reset {
            hard_fault[i] = true;
        }
        sent.push(exp);
    }
    let any_conn_fault = out.plans.iter().any(|p| matches!(p.end, End::Reset | End::CutMid));
    // attribute results
    let mut got: Vec<Vec<Vec<Vec<u8>>>> = vec![Vec::new(); out.plans.len()];
    let mut n_err = 0usize;
    for (_, r) in &sh.results {
        match r {
            Ok(frames) => {
                if frames.is_empty() {
                    ctx.violation("zero_frame_message", format!("{} recv returned a message with zero frames", kind.name()));
                    continue;
                }
                match tag_of(frames) {
                    Some((o, _)) if (o as usize) < out.plans.len() => got[o as usize].push(frames.clone()),
                    _ => ctx.violation("unattributable", format!("{} recv returned a message no peer sent: {}", kind.name(), show_msg(frames))),
                }
            }
            Err(_) => n_err += 1,
        }
    }
    let mut n_reject = 0usize;
    let mut n_reject_required = 0usize;
    for (i, exp) in sent.iter().enumerate() {
        let exp_ok: Vec<&Vec<Vec<u8>>> = exp.iter().filter_map(|e| e.as_ref()).collect();
        let in_rejoin = out.plans.iter().any(|q| q.rejoin_of == Some(i)) || out.plans[i].rejoin_of.is_some();
        if !hard_fault[i] && !in_rejoin {
            n_reject_required += exp.iter().filter(|e| e.is_none()).count();
        }
        n_reject += exp.iter().filter(|e| e.is_none()).count();
        // ROUTER: first frame is the label; compare the rest, check the label separately
        let strip = |m: &Vec<Vec<u8>>| -> Vec<Vec<u8>> { if kind == Kind::Router { m[1..].to_vec() } else { m.clone() } };
        for (j, g) in got[i].iter().enumerate() {
            if kind == Kind::Router {
                let label = g[0].clone();
                match &router_ids[i] {
                    None => router_ids[i] = Some(label.clone()),
                    Some(l) if *l != label => ctx.violation("router_label_changed", format!("peer {i} labelled {} then {}", world::hex(l), world::hex(&label))),
                    _ => {}
                }
                if let Some(id) = out.plans[i].identity.as_ref().filter(|id| !id.is_empty()) {
                    if *id != label {
                        ctx.violation("router_label_wrong", format!("peer {i} announced identity {} but was labelled {}", world::hex(id), world::hex(&label)));
                    }
                }
            }
            match exp_ok.get(j) {
                Some(e) if strip(e) == strip(g) => {}
                Some(e) => {
                    // classify: duplicate, reorder, or corrupted
                    let clause = if exp_ok.iter().take(j).any(|x| strip(x) == strip(g)) {
                        "duplicate"
                    } else if exp_ok.iter().skip(j + 1).any(|x| strip(x) == strip(g)) {
                        "lost_or_reordered"
                    } else {
                        "corrupted_or_split"
                    };
                    ctx.violation(clause, format!("{} peer {i} delivery #{j}: got {} expected {}", kind.name(), show_msg(g), show_msg(e)));
                    break;
                }
                None => {
                    ctx.violation("extra_or_partial", format!("{} peer {i} delivery #{j} = {} but only {} complete messages were put on the wire", kind.name(), show_msg(g), exp_ok.len()));
                    break;
                }
            }
        }
        // completeness at quiescence: everything complete on the wire was consumed, unless the
        // connection was reset (unread bytes are discarded then) or the receiver stopped
        // either connection of a peer that left and came back under its identity *while the socket
        // still held the first connection* (it had not yet released its end when the second one
        // appeared): only that overlap is the identity-collision finding. A peer that comes back
        // after its old connection is completely gone must simply work.
        let partner = out.plans.iter().position(|q| q.rejoin_of == Some(i)).or(out.plans[i].rejoin_of);
        let peer_rejoined = match partner {
            Some(j) => {
                let (old, new) = if out.plans[i].rejoin_of.is_some() { (j, i) } else { (i, j) };
                match (&sh.peers[old], &sh.peers[new]) {
                    (Some(o), Some(n)) => {
                        let new_first = n.dir(0).stamps.first().map(|x| x.1).unwrap_or(u64::MAX);
                        o.side_state(1).closed.map(|c| c > new_first).unwrap_or(true)
                    }
                    _ => false,
                }
            }
            None => false,
        };
        if got[i].len() < exp_ok.len() && !hard_fault[i] && !sh.gave_up && peer_rejoined {
            // the same peer came back under its identity before the socket had consumed everything
            // its first connection had delivered: registering the new connection replaced the old
            // stream, unread messages and all (its own clause: see DESIGN.md 11.5)
            ctx.violation("lost_when_peer_rejoined_under_same_identity", format!("{} peer {i} left and reconnected under the same identity; this connection carried {} complete messages, {} were delivered: the socket keys a peer's stream by identity, so one connection displaced the other (unread data of the old one, or the new one when the old one's failure is processed)", kind.name(), exp_ok.len(), got[i].len()));
        } else if got[i].len() < exp_ok.len() && !hard_fault[i] && !sh.gave_up {
            ctx.violation("not_delivered_at_quiescence", format!("{} peer {i}: {} of {} complete messages delivered; receiver {} at quiescence; first missing {}", kind.name(), got[i].len(), exp_ok.len(), if sh.app_parked_in_recv { "parked in recv" } else { "not in recv" }, show_msg(exp_ok[got[i].len()])));
        }
    }
    if kind == Kind::Router {
        for i in 0..router_ids.len() {
            for j in 0..i {
                let same_peer = out.plans[i].rejoin_of == Some(j) || out.plans[j].rejoin_of == Some(i);
                if !same_peer && router_ids[i].is_some() && router_ids[i] == router_ids[j] {
                    ctx.violation("router_label_shared", format!("peers {j} and {i} share the label {}", world::hex(router_ids[i].as_ref().unwrap())));
                }
            }
        }
    }
    if !any_conn_fault && n_err > n_reject {
        ctx.violation("unexpected_error", format!("{} recv returned {} errors but only {} messages violate its envelope rule and no connection failed; first: {:?}", kind.name(), n_err, n_reject, sh.results.iter().find_map(|(_, r)| r.as_ref().err())));
    }
    if n_reject_required > 0 && n_err < n_reject_required && !sh.gave_up {
        ctx.violation("reject_not_reported", format!("{} messages violate the envelope rule but only {} errors were returned", n_reject_required, n_err));
    }
    if n_reject > 0 {
        ctx.probe("envelope_reject");
    }
    if sh.gave_up {
        ctx.probe("receiver_gave_up_after_errors");
    }
    if sh.abandoned > 0 {
        ctx.nontrivial();
    }
    let delivered: usize = got.iter().map(|g| g.len()).sum();
    if delivered > 0 && out.plans.len() > 1 {
        ctx.nontrivial();
    }
    ctx.probe_n("messages_delivered", delivered as u64);
    if ctx.want_sample {
        let desc: Vec<String> = out.plans.iter().enumerate().map(|(i, p)| format!("sender{i}:{} id={:?} msgs={} batch={} end={:?}", p.stype, p.identity.as_ref().map(|x| x.len()), p.shapes.len(), p.batch, p.end)).collect();
        ctx.out.sample = Some(format!("{} receiver; {}; delivered={} errors={} abandoned_recvs={}", kind.name(), desc.join("; "), delivered, n_err, sh.abandoned));
    }
}

// ------------------------------------------------------------------------------------------------
// real sockets on both sides: PUSH->PULL, PUB->SUB, DEALER->DEALER, DEALER->ROUTER, REQ->REP
// ------------------------------------------------------------------------------------------------
pub struct RealOut {
    pub kind: Kind,
    pub results: Vec<Result<Vec<Vec<u8>>, String>>,
    pub label: String,
    pub end: rt::RunEnd,
    pub senders_done: usize,
    pub nsenders: usize,
    pub sender_kind: Kind,
}

pub fn run_real(ctx: &mut Ctx, kind: Kind) -> RealOut {
    world::swarm(ctx, SwarmOpts { allow_spurious: true, ..Default::default() });
    let sender_kind = match kind {
        Kind::Pull => Kind::Push,
        Kind::Sub => Kind::Pub,
        Kind::Dealer => Kind::Dealer,
        Kind::Router => Kind::Dealer,
        Kind::Rep => Kind::Req,
        _ => Kind::Push,
    };
    let n = 1 + ctx.plan(3) as usize;
    let counts: Vec<usize> = (0..n).map(|_| ctx.plan(9) as usize).collect();
    let shapes: Vec<Vec<Vec<usize>>> = counts.iter().map(|c| (0..*c).map(|_| draw_shape(ctx, false)).collect()).collect();
    let starts: Vec<u32> = (0..n).map(|_| ctx.plan(10) as u32).collect();
    let closes: Vec<bool> = (0..n).map(|_| ctx.plan(3) == 0).collect();
    let shared: Rc<RefCell<(Vec<Result<Vec<Vec<u8>>, String>>, String, usize)>> = Rc::new(RefCell::new((Vec::new(), String::new(), 0)));
    let sh = shared.clone();
    rt::task::spawn_local("app", async move {
        let mut sock = AnySock::new(kind, None);
        let ep = sock.bind("tcp://127.0.0.1:0").await.expect("bind").to_string();
        sh.borrow_mut().1 = world::ep_key(&ep);
        if kind == Kind::Sub {
            let _ = sock.subscribe("").await;
        }
        for i in 0..n {
            let (ep, sh, shp, start, close) = (ep.clone(), sh.clone(), shapes[i].clone(), starts[i], closes[i]);
            rt::task::spawn_local("real-sender", async move {
                for _ in 0..start {
                    rt::task::yield_now().await;
                }
                let mut s = AnySock::new(sender_kind, Some(format!("s{i}").as_bytes()));
                if s.connect(&ep).await.is_err() {
                    return;
                }
                if sender_kind == Kind::Pub {
                    // the subscription must have been processed before the first publish counts
                    rt::task::idle().await;
                }
                for (seq, shape) in shp.iter().enumerate() {
                    let m = tagged(i as u16, seq as u32, shape);
                    if s.send(to_zmq(&m)).await.is_err() {
                        break;
                    }
                    if sender_kind == Kind::Req && s.recv().await.is_err() {
                        break;
                    }
                }
                sh.borrow_mut().2 += 1;
                if close {
                    rt::task::idle().await;
                    rt::count("fault_peer_close");
                    let _ = s.close().await;
                } else {
                    world::park().await;
                    drop(s);
                }
            });
        }
        let mut errs = 0;
        loop {
            match sock.recv().await {
                Ok(m) => {
                    let f = from_zmq(&m);
                    sh.borrow_mut().0.push(Ok(f.clone()));
                    if kind == Kind::Rep {
                        let _ = sock.send(to_zmq(&[b"re".to_vec()])).await;
                    }
                }
                Err(e) => {
                    sh.borrow_mut().0.push(Err(e.to_string()));
                    errs += 1;
                    if errs > 40 {
                        break;
                    }
                    rt::task::yield_now().await;
                }
            }
        }
        world::park().await;
        drop(sock);
    });
    let end = ctx.sim.run(600_000);
    let s = shared.borrow();
    RealOut { kind, results: s.0.clone(), label: s.1.clone(), end, senders_done: s.2, nsenders: n, sender_kind }
}

/// per connection: the recv results attributed to it equal, in order, the complete messages on
/// its tap (PUB senders may drop whole messages, so what was put on the wire is the reference)
pub fn check_real(ctx: &mut Ctx, out: &RealOut) {
    let kind = out.kind;
    if out.end == rt::RunEnd::Budget {
        ctx.violation("no_quiescence", format!("{} <- {} world did not become quiescent", kind.name(), out.sender_kind.name()));
        return;
    }
    let conns = world::conns_of(ctx.sim, &out.label);
    let mut got: std::collections::BTreeMap<u16, Vec<Vec<Vec<u8>>>> = Default::default();
    let mut n_err = 0;
    for r in &out.results {
        match r {
            Ok(f) => match tag_of(f) {
                Some((o, _)) => got.entry(o).or_default().push(f.clone()),
                None => ctx.violation("unattributable", format!("{} recv returned {}", kind.name(), show_msg(f))),
            },
            Err(_) => n_err += 1,
        }
    }
    // a PUB socket flushes with a no-op waker: when it is closed, the tail of its last message may
    // still be buffered, and the connection then ends inside a message. That is a cut by
    // disconnect: one error for it is legitimate, the partial message must not surface.
    let cut_conns = conns.iter().filter(|c| c.side_state(0).closed.is_some() && rc::parse_stream(&c.tap_from(0)).partial > 0).count();
    if n_err > cut_conns {
        ctx.violation("unexpected_error", format!("{} recv returned {n_err} errors although every peer is a well-behaved socket and only {cut_conns} connections ended inside a message; first: {:?}", kind.name(), out.results.iter().find_map(|r| r.as_ref().err())));
    }
    if cut_conns > 0 {
        ctx.probe("sender_closed_with_partial_message_buffered");
    }
    let mut total = 0;
    for c in &conns {
        let tap = c.tap_from(0);
        let parsed = rc::parse_stream(&tap);
        let w = crate::oracle::check_library_stream(&tap, Some(out.sender_kind.name()), None);
        for p in w.problems {
            ctx.violation("wire_malformed", format!("{} sender wrote a malformed stream: {p}", out.sender_kind.name()));
        }
        let msgs = parsed.messages();
        let Some(origin) = msgs.iter().find_map(|m| tag_of(m).map(|t| t.0)) else { continue };
        let exp: Vec<Vec<Vec<u8>>> = msgs.iter().filter_map(|m| expected_recv(kind, m, None)).collect();
        let g = got.remove(&origin).unwrap_or_default();
        let strip = |m: &Vec<Vec<u8>>| -> Vec<Vec<u8>> { if kind == Kind::Router { m[1..].to_vec() } else { m.clone() } };
        let gs: Vec<_> = g.iter().map(strip).collect();
        let es: Vec<_> = exp.iter().map(strip).collect();
        total += gs.len();
        if gs != es {
            let at = gs.iter().zip(es.iter()).position(|(a, b)| a != b).unwrap_or(gs.len().min(es.len()));
            let clause = if gs.len() < es.len() && gs[..] == es[..gs.len()] { "not_delivered_at_quiescence" } else if gs.len() > es.len() { "extra_or_duplicate" } else { "lost_or_reordered" };
            ctx.violation(clause, format!("{} <- {} connection of origin {origin}: {} messages on the wire, {} delivered, first difference at #{at}: got {:?} expected {:?}", kind.name(), out.sender_kind.name(), es.len(), gs.len(), gs.get(at).map(|m| show_msg(m)), es.get(at).map(|m| show_msg(m))));
        }
        if kind == Kind::Router {
            let want = format!("s{origin}").into_bytes();
            if let Some(bad) = g.iter().find(|m| m[0] != want) {
                ctx.violation("router_label_wrong", format!("origin {origin} announced identity s{origin} but was labelled {}", world::hex(&bad[0])));
            }
        }
    }
    for (o, g) in got {
        ctx.violation("unattributable", format!("{} messages tagged with origin {o} were delivered but no connection carried them", g.len()));
    }
    if out.nsenders > 1 && total > 0 {
        ctx.nontrivial();
    }
    ctx.probe_n("messages_delivered", total as u64);
    if ctx.want_sample {
        ctx.out.sample = Some(format!("{} bound, {} real {} sockets connecting and sending; {} delivered, {} senders finished", kind.name(), out.nsenders, out.sender_kind.name(), total, out.senders_done));
    }
}
