//! Minimisation of a failing run: shrink the choice tapes (workload plan, schedule, transport,
//! select order) while the same violation class persists. An exhausted or zeroed tape position
//! means "the simplest choice" (fewest peers/messages, FIFO scheduling, whole-chunk I/O, no
//! yield, source-order select), so shrinking drives the failing run towards the plainest world.
use crate::driver::ReplayFile;
use std::path::Path;
use std::time::{Duration, Instant};
use zmq_simrt::tape::NSTREAMS;

struct Shrinker {
    best: ReplayFile,
    deadline: Instant,
    attempts: u64,
    accepted: u64,
}

impl Shrinker {
    fn timed_out(&self) -> bool {
        Instant::now() > self.deadline
    }
    /// try a candidate; adopt it (normalised to the draws actually made) if the same class fails
    fn attempt(&mut self, tapes: [Vec<u32>; NSTREAMS]) -> bool {
        if self.timed_out() {
            return false;
        }
        self.attempts += 1;
        let mut cand = self.best.clone();
        cand.tapes = tapes;
        let Ok(rep) = cand.exec(false) else { return false };
        if !rep.harness_errors.is_empty() {
            return false;
        }
        if rep.keys().iter().any(|k| *k == self.best.expect_key) {
            if let Some(rec) = rep.tapes.clone() {
                // normalise: the recorded draws are exactly what was consumed
                let mut rec = rec;
                for t in rec.iter_mut() {
                    while t.last() == Some(&0) {
                        t.pop();
                    }
                }
                cand.tapes = rec;
            }
            cand.expect_fingerprint = rep.fingerprint();
            if let Some(v) = rep.violations.iter().find(|v| v.key == self.best.expect_key) {
                cand.detail = v.detail.clone();
            }
            let better = weight(&cand.tapes) <= weight(&self.best.tapes);
            if better {
                self.best = cand;
                self.accepted += 1;
                return true;
            }
        }
        false
    }
}

fn weight(t: &[Vec<u32>; NSTREAMS]) -> (usize, usize, u64) {
    let nz: usize = t.iter().map(|x| x.iter().filter(|v| **v != 0).count()).sum();
    let len: usize = t.iter().map(|x| x.len()).sum();
    let sum: u64 = t.iter().map(|x| x.iter().map(|v| *v as u64).sum::<u64>()).sum();
    (nz, len, sum)
}

pub fn minimise(rf: &ReplayFile, budget: Duration) -> ReplayFile {
    crate::fw::WATCHDOG_S.with(|w| w.set(3));
    let mut s = Shrinker { best: rf.clone(), deadline: Instant::now() + budget, attempts: 0, accepted: 0 };
    // normalise first (also verifies that the replay fails at all)
    let t0 = s.best.tapes.clone();
    if !s.attempt(t0) {
        let mut r = rf.clone();
        r.minimised = false;
        return r;
    }
    let order = [0usize, 2, 3, 1]; // plan, io, select, sched
    let mut progress = true;
    let mut round = 0;
    while progress && !s.timed_out() && round < 6 {
        progress = false;
        round += 1;
        for &ti in &order {
            // (a) whole tape zero
            if s.best.tapes[ti].iter().any(|v| *v != 0) {
                let mut c = s.best.tapes.clone();
                c[ti].clear();
                if s.attempt(c) {
                    progress = true;
                    continue;
                }
            }
            // (b) truncate: keep a prefix, zero the rest
            let mut keep = s.best.tapes[ti].len();
            let mut step = keep / 2;
            while step >= 1 && !s.timed_out() {
                if keep >= step {
                    let mut c = s.best.tapes.clone();
                    c[ti].truncate(keep - step);
                    if s.attempt(c) {
                        progress = true;
                        keep = s.best.tapes[ti].len().min(keep - step);
                        continue;
                    }
                }
                step /= 2;
            }
            // (c) zero blocks
            let mut bs = (s.best.tapes[ti].len() / 2).max(1);
            loop {
                let mut i = 0;
                let mut tries = 0;
                while i < s.best.tapes[ti].len() && !s.timed_out() && tries < 400 {
                    let end = (i + bs).min(s.best.tapes[ti].len());
                    if s.best.tapes[ti][i..end].iter().any(|v| *v != 0) {
                        let mut c = s.best.tapes.clone();
                        for v in &mut c[ti][i..end] {
                            *v = 0;
                        }
                        tries += 1;
                        if s.attempt(c) {
                            progress = true;
                        }
                    }
                    i += bs;
                }
                if bs == 1 || s.timed_out() {
                    break;
                }
                bs /= 2;
            }
            // (d) delete positions (plan tape: removes an operation and shifts the rest)
            if ti == 0 {
                for width in [8usize, 4, 2, 1] {
                    let mut i = 0;
                    let mut tries = 0;
                    while i + width <= s.best.tapes[ti].len() && !s.timed_out() && tries < 200 {
                        let mut c = s.best.tapes.clone();
                        c[ti].drain(i..i + width);
                        tries += 1;
                        if s.attempt(c) {
                            progress = true;
                        } else {
                            i += 1;
                        }
                    }
                }
            }
            // (e) lower values
            let mut i = 0;
            let mut tries = 0;
            while i < s.best.tapes[ti].len() && !s.timed_out() && tries < 300 {
                let v = s.best.tapes[ti][i];
                if v > 1 {
                    for nv in [1, v / 2, v - 1] {
                        if nv < s.best.tapes[ti].get(i).copied().unwrap_or(0) {
                            let mut c = s.best.tapes.clone();
                            c[ti][i] = nv;
                            tries += 1;
                            if s.attempt(c) {
                                progress = true;
                                break;
                            }
                        }
                    }
                }
                i += 1;
            }
        }
    }
    let mut out = s.best;
    out.minimised = true;
    if std::env::var_os("ZSIM_SHRINK_VERBOSE").is_some() {
        eprintln!("shrink: {} attempts, {} accepted, weight {:?} -> {:?}", s.attempts, s.accepted, weight(&rf.tapes), weight(&out.tapes));
    }
    out
}

/// args: in out seconds
pub fn shrink_cmd(a: &[String]) -> i32 {
    let rf = match ReplayFile::load(Path::new(&a[0])) {
        Ok(r) => r,
        Err(e) => {
            eprintln!("{e}");
            return 2;
        }
    };
    let secs: u64 = a.get(2).and_then(|s| s.parse().ok()).unwrap_or(20);
    let m = minimise(&rf, Duration::from_secs(secs));
    m.save(Path::new(&a[1]));
    println!("minimised={} weight {:?} -> {:?}", m.minimised, weight(&rf.tapes), weight(&m.tapes));
    0
}

/// `zsim confirm-shrink <raw> <out> <secs> <0|1>`: the step of the driver that executes recorded
/// tapes - in a process of its own, because a shrink candidate (or the recorded run itself) may
/// kill the process it runs in (allocation ceiling, stack overflow), and that must not be the driver.
/// Exit 0: <out> written (minimised if asked and possible), <raw> updated with its fingerprint;
/// exit 4: the recorded tapes do not reproduce the violation.
pub fn confirm_shrink_cmd(a: &[String]) -> i32 {
    let mut rf = match ReplayFile::load(Path::new(&a[0])) {
        Ok(r) => r,
        Err(e) => {
            eprintln!("{e}");
            return 2;
        }
    };
    let key = rf.expect_key.clone();
    match rf.exec(false) {
        Ok(rep) if rep.keys().iter().any(|k| *k == key) => rf.expect_fingerprint = rep.fingerprint(),
        _ => return 4,
    }
    rf.save(Path::new(&a[0]));
    let secs: u64 = a.get(2).and_then(|s| s.parse().ok()).unwrap_or(12);
    let m = if a.get(3).map(|s| s == "1").unwrap_or(true) { minimise(&rf, Duration::from_secs(secs)) } else { rf.clone() };
    m.save(Path::new(&a[1]));
    0
}
