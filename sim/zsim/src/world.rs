//! Building blocks shared by scenarios: swarm knobs, scripted raw peers, tagged payloads.
use crate::fw::Ctx;
use crate::refcodec::{self as rc, Hello, Parsed};
use bytes::Bytes;
use std::io;
use std::sync::Arc;
use zeromq::ZmqMessage;
use zmq_simrt as rt;
use zmq_simrt::net::{Chunk, Conn, NetProfile, SimStream, TcpListener, UnixListener, UnixStream};

/// boundary grid of frame lengths (C01/C02/C07)
pub const GRID: [usize; 15] = [0, 1, 2, 254, 255, 256, 257, 8191, 8192, 8193, 65535, 65536, 131071, 131072, 131073];
pub const SMALL_GRID: [usize; 9] = [0, 1, 2, 254, 255, 256, 257, 300, 1000];

#[derive(Clone, Copy, Debug)]
pub struct SwarmOpts {
    /// allow one-byte chunking (expensive with large payloads)
    pub tiny_chunks: bool,
    /// allow small capacities (back-pressure)
    pub small_caps: bool,
    pub allow_latency: bool,
    pub allow_preempt: bool,
    pub allow_spurious: bool,
}
impl Default for SwarmOpts {
    fn default() -> Self {
        SwarmOpts { tiny_chunks: true, small_caps: true, allow_latency: true, allow_preempt: true, allow_spurious: false }
    }
}

/// Draw the run's transport profile and scheduler policy from the plan tape (swarm style: every
/// run gets its own mix). Draw 0 of every knob is the plain configuration (unbounded pipes, whole
/// chunks, no yields, FIFO scheduling), so a minimised replay degrades towards the simplest world.
pub fn swarm(ctx: &mut Ctx, o: SwarmOpts) -> NetProfile {
    let caps: &[usize] = if o.small_caps { &[1 << 22, 512, 513, 8191, 8192, 8193, 65536] } else { &[1 << 22, 65536, 1 << 20] };
    let chunks: &[Chunk] = if o.tiny_chunks { &[Chunk::Whole, Chunk::Random, Chunk::One, Chunk::Max(7), Chunk::Max(8191), Chunk::Max(8193)] } else { &[Chunk::Whole, Chunk::Random, Chunk::Max(8191), Chunk::Max(8193), Chunk::Max(1000)] };
    let cap = ctx.plan_pick(caps);
    let read_chunk = ctx.plan_pick(chunks);
    let write_chunk = ctx.plan_pick(chunks);
    let yield_pm = ctx.plan_pick(&[0u16, 50, 250]);
    let latency = o.allow_latency && ctx.plan_bool();
    let deliver_chunk = ctx.plan_pick(&[Chunk::Whole, Chunk::Random]);
    let head_pct = ctx.plan_pick(&[100u8, 90, 50, 0]);
    let preempt_pm = if o.allow_preempt { ctx.plan_pick(&[0u16, 20, 200]) } else { 0 };
    let spurious = o.allow_spurious && ctx.plan_bool();
    // one run in four holds one task back (ids 1..12 cover accept loops, handshakes, readers and
    // the first scripted peers); it is released with probability 0.5 % or 5 % per step
    let starve = if ctx.plan(4) == 1 { Some((1 + ctx.plan(12) as usize, ctx.plan_pick(&[5u16, 50]))) } else { None };
    // one run in three gives the transport a cooperative budget (tokio's is 128 operations per
    // task poll; smaller ones reach the same state sooner), half of them with the immediate wake
    // that a block_on-driven future sees
    let coop = match ctx.plan(6) {
        1 => Some((ctx.plan_pick(&[128u32, 16, 2]), false)),
        2 => Some((ctx.plan_pick(&[128u32, 16, 2]), true)),
        _ => None,
    };
    let p = NetProfile { cap, read_chunk, write_chunk, yield_pm, latency, deliver_chunk };
    ctx.sim.rt.net.borrow_mut().profile = p;
    ctx.sim.rt.policy.set(rt::Policy { head_pct, preempt_pm, spurious, starve, coop });
    p
}

/// exact, undisturbed transport and FIFO scheduling
pub fn plain(ctx: &mut Ctx) {
    ctx.sim.rt.net.borrow_mut().profile = NetProfile::default();
    ctx.sim.rt.policy.set(rt::Policy::default());
}

/// keep the calling task (and everything it owns, sockets included) alive for the rest of the run
pub async fn park() {
    futures::future::pending::<()>().await
}

pub fn to_zmq(frames: &[Vec<u8>]) -> ZmqMessage {
    let v: Vec<Bytes> = frames.iter().map(|f| Bytes::from(f.clone())).collect();
    ZmqMessage::try_from(v).expect("non-empty message")
}
pub fn from_zmq(m: &ZmqMessage) -> Vec<Vec<u8>> {
    m.iter().map(|b| b.to_vec()).collect()
}

pub const TAG_LEN: usize = 8;
/// shape entry for an empty frame that FOLLOWS the tagged frame (a message whose last frame is empty)
pub const TAIL_EMPTY: usize = usize::MAX;
/// message whose frames have the given lengths (plus an 8-byte tag appended to the last frame that
/// is not a `TAIL_EMPTY` one)
pub fn tagged(origin: u16, seq: u32, shape: &[usize]) -> Vec<Vec<u8>> {
    let mut frames = Vec::with_capacity(shape.len());
    for (fi, len) in shape.iter().enumerate() {
        if *len == TAIL_EMPTY {
            frames.push(Vec::new());
            continue;
        }
        let mut f = Vec::with_capacity(*len + TAG_LEN);
        for i in 0..*len {
            f.push((origin as usize * 31 + seq as usize * 7 + fi * 13 + i * 3 + 1) as u8);
        }
        frames.push(f);
    }
    let at = shape.iter().rposition(|l| *l != TAIL_EMPTY).expect("shape has a frame that carries the tag");
    let last = &mut frames[at];
    last.extend_from_slice(&[0xA5, 0x5A]);
    last.extend_from_slice(&origin.to_be_bytes());
    last.extend_from_slice(&seq.to_be_bytes());
    frames
}
/// the tag sits at the end of the last non-empty frame
pub fn tag_of(frames: &[Vec<u8>]) -> Option<(u16, u32)> {
    let l = frames.iter().rev().find(|f| !f.is_empty())?;
    if l.len() < TAG_LEN {
        return None;
    }
    let t = &l[l.len() - TAG_LEN..];
    if t[0] != 0xA5 || t[1] != 0x5A {
        return None;
    }
    Some((u16::from_be_bytes([t[2], t[3]]), u32::from_be_bytes([t[4], t[5], t[6], t[7]])))
}

pub fn hex(b: &[u8]) -> String {
    let mut s = String::new();
    for (i, x) in b.iter().enumerate() {
        if i >= 48 {
            s.push_str(&format!("..(+{})", b.len() - i));
            break;
        }
        s.push_str(&format!("{x:02x}"));
    }
    s
}
pub fn show_msg(m: &[Vec<u8>]) -> String {
    let parts: Vec<String> = m.iter().map(|f| if f.len() <= 12 { hex(f) } else { format!("<{}B {}>", f.len(), hex(&f[f.len() - 8..])) }).collect();
    format!("[{}]", parts.join(","))
}

// ------------------------------------------------------------------------------------------------
// scripted raw peers
// ------------------------------------------------------------------------------------------------
pub struct RawPeer {
    pub s: SimStream,
    pub conn: Arc<Conn>,
    pub side: usize,
}

pub fn parse_ep(ep: &str) -> (bool, String, u16) {
    if let Some(rest) = ep.strip_prefix("tcp://") {
        let (h, p) = rest.rsplit_once(':').expect("tcp endpoint host:port");
        let h = h.trim_start_matches('[').trim_end_matches(']');
        (true, h.to_string(), p.parse().expect("port"))
    } else if let Some(rest) = ep.strip_prefix("ipc://") {
        (false, rest.to_string(), 0)
    } else {
        panic!("bad endpoint {ep}")
    }
}

impl RawPeer {
    fn wrap(s: SimStream) -> RawPeer {
        let conn = s.conn();
        let side = s.side();
        conn.set_io(side, |io| {
            io.raw = true;
            io.yield_pm = 0;
            io.wyield_pm = 0;
        });
        // by default a scripted peer consumes whatever the library writes (the tap keeps it)
        conn.set_auto_drain(1 - side, true);
        RawPeer { s, conn, side }
    }
    pub fn connect(ep: &str) -> io::Result<RawPeer> {
        let (tcp, host, port) = parse_ep(ep);
        let s = if tcp { SimStream::connect_raw(&host, port)? } else { UnixStream::connect_raw(std::path::Path::new(&host))? };
        Ok(Self::wrap(s))
    }
    pub async fn send(&mut self, b: &[u8]) -> io::Result<()> {
        self.s.write_all(b).await
    }
    pub async fn hello(&mut self, socket_type: &str, identity: Option<&[u8]>) -> io::Result<()> {
        let mut b = rc::greeting_default();
        b.extend(rc::ready_for(socket_type, identity));
        self.send(&b).await
    }
    pub async fn send_msg(&mut self, frames: &[Vec<u8>]) -> io::Result<()> {
        self.send(&rc::encode_msg(frames)).await
    }
    /// bytes the library has written to this peer
    pub fn inbound_raw(&self) -> Vec<u8> {
        self.conn.tap_from(1 - self.side)
    }
    pub fn inbound(&self) -> Parsed {
        rc::parse_stream(&self.inbound_raw())
    }
    /// bytes this peer has written
    pub fn outbound_raw(&self) -> Vec<u8> {
        self.conn.tap_from(self.side)
    }
    /// wait for the library's greeting + READY
    pub async fn wait_hello(&self) -> Result<Hello, String> {
        loop {
            let raw = self.inbound_raw();
            let p = rc::parse_stream(&raw);
            if let Some((at, e)) = &p.error {
                return Err(format!("library stream malformed at {at}: {e}"));
            }
            if p.items.len() >= 2 {
                return rc::parse_hello(&p);
            }
            if !self.s.wait_inbound_len(raw.len() + 1).await {
                return Err("connection ended before the library's READY".into());
            }
        }
    }
    /// wait until the library has sent at least n complete messages (after the handshake)
    pub async fn wait_messages(&self, n: usize) -> bool {
        loop {
            let raw = self.inbound_raw();
            let p = rc::parse_stream(&raw);
            if p.messages().len() >= n {
                return true;
            }
            if p.error.is_some() {
                return false;
            }
            if !self.s.wait_inbound_len(raw.len() + 1).await {
                return false;
            }
        }
    }
    pub fn reset(&self) {
        self.conn.reset();
    }
    /// shutdown(SHUT_WR): the library reads end-of-stream, this peer keeps reading
    pub fn half_close(&self) {
        self.conn.shutdown_write(self.side);
    }
    /// orderly close
    pub fn close(self) {
        rt::count("fault_peer_close");
        drop(self);
    }
    pub fn library_released(&self) -> bool {
        self.conn.released(1 - self.side)
    }
}

pub enum RawListener {
    Tcp(TcpListener),
    Unix(UnixListener),
}
impl RawListener {
    /// bind a harness-owned listener; returns it with the connectable endpoint text
    pub fn bind(ep: &str) -> io::Result<(RawListener, String)> {
        let (tcp, host, port) = parse_ep(ep);
        if tcp {
            let l = TcpListener::bind_now(&host, port)?;
            let a = l.local_addr()?;
            let text = match a.ip() {
                std::net::IpAddr::V4(ip) => format!("tcp://{}:{}", ip, a.port()),
                std::net::IpAddr::V6(ip) => format!("tcp://[{}]:{}", ip, a.port()),
            };
            Ok((RawListener::Tcp(l), text))
        } else {
            let l = UnixListener::bind_now(std::path::Path::new(&host))?;
            Ok((RawListener::Unix(l), ep.to_string()))
        }
    }
    pub async fn accept(&self) -> io::Result<RawPeer> {
        match self {
            RawListener::Tcp(l) => {
                let (s, _) = l.accept().await?;
                Ok(RawPeer::wrap(s))
            }
            RawListener::Unix(l) => {
                let (s, _) = l.accept().await?;
                Ok(RawPeer::wrap(s.into_inner()))
            }
        }
    }
}

/// connections (in creation order) whose listener key matches `label`
pub fn conns_of(sim: &rt::Sim, label: &str) -> Vec<Arc<Conn>> {
    sim.rt.net.borrow().conns.iter().filter(|c| c.label == label).cloned().collect()
}
pub fn all_conns(sim: &rt::Sim) -> Vec<Arc<Conn>> {
    sim.rt.net.borrow().conns.clone()
}

/// listener key in the simulated namespace for an endpoint text as returned by `bind`
pub fn ep_key(ep: &str) -> String {
    let (tcp, host, port) = parse_ep(ep);
    if tcp {
        let ip: std::net::IpAddr = if host == "localhost" { "127.0.0.1".parse().unwrap() } else { host.parse().expect("ip literal") };
        rt::net::tcp_key(ip, port)
    } else {
        rt::net::ipc_key(std::path::Path::new(&host))
    }
}
