//! Drop-in for the subset of `parking_lot` the library uses, with preemption points at every
//! Mutex acquire/release when no shim lock is held by this thread.
pub use parking_lot::{Condvar, Once, RwLock, RwLockReadGuard, RwLockWriteGuard};
use std::cell::{Cell, RefCell};
use std::ops::{Deref, DerefMut};

thread_local! {
    static HELD: Cell<usize> = const { Cell::new(0) };
    static IN_HOOK: Cell<bool> = const { Cell::new(false) };
    static HOOK: RefCell<Option<Box<dyn FnMut(&'static str)>>> = const { RefCell::new(None) };
    pub static POINTS: Cell<u64> = const { Cell::new(0) };
}
pub fn set_preempt_hook(h: Option<Box<dyn FnMut(&'static str)>>) { HOOK.with(|x| *x.borrow_mut() = h); }
fn preempt(kind: &'static str) {
    if HELD.with(|h| h.get()) != 0 || IN_HOOK.with(|f| f.get()) { return; }
    POINTS.with(|p| p.set(p.get() + 1));
    IN_HOOK.with(|f| f.set(true));
    HOOK.with(|x| { if let Some(h) = x.borrow_mut().as_mut() { h(kind) } });
    IN_HOOK.with(|f| f.set(false));
}

#[derive(Debug, Default)]
pub struct Mutex<T: ?Sized>(parking_lot::Mutex<T>);
pub struct MutexGuard<'a, T: ?Sized>(Option<parking_lot::MutexGuard<'a, T>>);
impl<T> Mutex<T> {
    pub const fn new(t: T) -> Self { Mutex(parking_lot::const_mutex(t)) }
    pub fn into_inner(self) -> T { self.0.into_inner() }
}
impl<T: ?Sized> Mutex<T> {
    pub fn lock(&self) -> MutexGuard<'_, T> { preempt("lock"); let g = self.0.lock(); HELD.with(|h| h.set(h.get() + 1)); MutexGuard(Some(g)) }
    pub fn try_lock(&self) -> Option<MutexGuard<'_, T>> { preempt("try_lock"); self.0.try_lock().map(|g| { HELD.with(|h| h.set(h.get() + 1)); MutexGuard(Some(g)) }) }
    pub fn is_locked(&self) -> bool { self.0.is_locked() }
    pub fn get_mut(&mut self) -> &mut T { self.0.get_mut() }
}
impl<T: ?Sized> Deref for MutexGuard<'_, T> { type Target = T; fn deref(&self) -> &T { self.0.as_ref().unwrap() } }
impl<T: ?Sized> DerefMut for MutexGuard<'_, T> { fn deref_mut(&mut self) -> &mut T { self.0.as_mut().unwrap() } }
impl<T: ?Sized> Drop for MutexGuard<'_, T> { fn drop(&mut self) { drop(self.0.take()); HELD.with(|h| h.set(h.get() - 1)); preempt("unlock"); } }
