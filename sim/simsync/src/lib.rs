//! Drop-in for `parking_lot` with preemption points at every Mutex / RwLock acquire and release
//! (when no shim lock is held by this thread). The lock types are `lock_api` instantiations over
//! raw locks that delegate to parking_lot's and call the simulator's hook, so the complete
//! parking_lot surface (`MutexGuard::unlocked`, `map`, `bump`, `try_lock_for`, upgradable reads,
//! `const_mutex`, ...) is available to the library under test exactly as with the real crate.
pub use lock_api;
pub use parking_lot::{Condvar, FairMutex, FairMutexGuard, MappedFairMutexGuard, MappedReentrantMutexGuard, Once, OnceState, ReentrantMutex, ReentrantMutexGuard, WaitTimeoutResult};
use std::cell::{Cell, RefCell};
use std::time::{Duration, Instant};

thread_local! {
    static HELD: Cell<usize> = const { Cell::new(0) };
    static IN_HOOK: Cell<bool> = const { Cell::new(false) };
    static HOOK: RefCell<Option<Box<dyn FnMut(&'static str)>>> = const { RefCell::new(None) };
    pub static POINTS: Cell<u64> = const { Cell::new(0) };
}
pub fn set_preempt_hook(h: Option<Box<dyn FnMut(&'static str)>>) {
    HOOK.with(|x| *x.borrow_mut() = h);
}
fn preempt(kind: &'static str) {
    if HELD.with(|h| h.get()) != 0 || IN_HOOK.with(|f| f.get()) {
        return;
    }
    POINTS.with(|p| p.set(p.get() + 1));
    IN_HOOK.with(|f| f.set(true));
    HOOK.with(|x| {
        if let Some(h) = x.borrow_mut().as_mut() {
            h(kind)
        }
    });
    IN_HOOK.with(|f| f.set(false));
}
fn held(d: isize) {
    HELD.with(|h| h.set((h.get() as isize + d).max(0) as usize));
}

// ------------------------------------------------------------------------------------------------
// Mutex
// ------------------------------------------------------------------------------------------------
pub struct RawMutex(parking_lot::RawMutex);
unsafe impl lock_api::RawMutex for RawMutex {
    #[allow(clippy::declare_interior_mutable_const)]
    const INIT: RawMutex = RawMutex(<parking_lot::RawMutex as lock_api::RawMutex>::INIT);
    type GuardMarker = <parking_lot::RawMutex as lock_api::RawMutex>::GuardMarker;
    fn lock(&self) {
        preempt("lock");
        lock_api::RawMutex::lock(&self.0);
        held(1);
    }
    fn try_lock(&self) -> bool {
        preempt("try_lock");
        let ok = lock_api::RawMutex::try_lock(&self.0);
        if ok {
            held(1);
        }
        ok
    }
    unsafe fn unlock(&self) {
        lock_api::RawMutex::unlock(&self.0);
        held(-1);
        preempt("unlock");
    }
    fn is_locked(&self) -> bool {
        lock_api::RawMutex::is_locked(&self.0)
    }
}
unsafe impl lock_api::RawMutexFair for RawMutex {
    unsafe fn unlock_fair(&self) {
        lock_api::RawMutexFair::unlock_fair(&self.0);
        held(-1);
        preempt("unlock");
    }
    unsafe fn bump(&self) {
        // "let a waiter in": in the simulation, that is a preemption point with the lock released
        lock_api::RawMutex::unlock(&self.0);
        held(-1);
        preempt("unlock");
        preempt("lock");
        lock_api::RawMutex::lock(&self.0);
        held(1);
    }
}
unsafe impl lock_api::RawMutexTimed for RawMutex {
    type Duration = Duration;
    type Instant = Instant;
    fn try_lock_for(&self, d: Duration) -> bool {
        preempt("try_lock");
        let ok = lock_api::RawMutexTimed::try_lock_for(&self.0, d);
        if ok {
            held(1);
        }
        ok
    }
    fn try_lock_until(&self, t: Instant) -> bool {
        preempt("try_lock");
        let ok = lock_api::RawMutexTimed::try_lock_until(&self.0, t);
        if ok {
            held(1);
        }
        ok
    }
}
pub type Mutex<T> = lock_api::Mutex<RawMutex, T>;
pub type MutexGuard<'a, T> = lock_api::MutexGuard<'a, RawMutex, T>;
pub type MappedMutexGuard<'a, T> = lock_api::MappedMutexGuard<'a, RawMutex, T>;
pub const fn const_mutex<T>(val: T) -> Mutex<T> {
    Mutex::const_new(<RawMutex as lock_api::RawMutex>::INIT, val)
}

// ------------------------------------------------------------------------------------------------
// RwLock
// ------------------------------------------------------------------------------------------------
pub struct RawRwLock(parking_lot::RawRwLock);
macro_rules! acq {
    ($self:ident, $tr:ident :: $f:ident ( $($a:expr),* )) => {{
        preempt("lock");
        lock_api::$tr::$f(&$self.0 $(, $a)*);
        held(1);
    }};
}
macro_rules! try_acq {
    ($self:ident, $tr:ident :: $f:ident ( $($a:expr),* )) => {{
        preempt("try_lock");
        let ok = lock_api::$tr::$f(&$self.0 $(, $a)*);
        if ok {
            held(1);
        }
        ok
    }};
}
macro_rules! rel {
    ($self:ident, $tr:ident :: $f:ident) => {{
        lock_api::$tr::$f(&$self.0);
        held(-1);
        preempt("unlock");
    }};
}
unsafe impl lock_api::RawRwLock for RawRwLock {
    #[allow(clippy::declare_interior_mutable_const)]
    const INIT: RawRwLock = RawRwLock(<parking_lot::RawRwLock as lock_api::RawRwLock>::INIT);
    type GuardMarker = <parking_lot::RawRwLock as lock_api::RawRwLock>::GuardMarker;
    fn lock_shared(&self) {
        acq!(self, RawRwLock::lock_shared())
    }
    fn try_lock_shared(&self) -> bool {
        try_acq!(self, RawRwLock::try_lock_shared())
    }
    unsafe fn unlock_shared(&self) {
        rel!(self, RawRwLock::unlock_shared)
    }
    fn lock_exclusive(&self) {
        acq!(self, RawRwLock::lock_exclusive())
    }
    fn try_lock_exclusive(&self) -> bool {
        try_acq!(self, RawRwLock::try_lock_exclusive())
    }
    unsafe fn unlock_exclusive(&self) {
        rel!(self, RawRwLock::unlock_exclusive)
    }
    fn is_locked(&self) -> bool {
        lock_api::RawRwLock::is_locked(&self.0)
    }
    fn is_locked_exclusive(&self) -> bool {
        lock_api::RawRwLock::is_locked_exclusive(&self.0)
    }
}
unsafe impl lock_api::RawRwLockFair for RawRwLock {
    unsafe fn unlock_shared_fair(&self) {
        rel!(self, RawRwLockFair::unlock_shared_fair)
    }
    unsafe fn unlock_exclusive_fair(&self) {
        rel!(self, RawRwLockFair::unlock_exclusive_fair)
    }
}
unsafe impl lock_api::RawRwLockDowngrade for RawRwLock {
    unsafe fn downgrade(&self) {
        lock_api::RawRwLockDowngrade::downgrade(&self.0)
    }
}
unsafe impl lock_api::RawRwLockRecursive for RawRwLock {
    fn lock_shared_recursive(&self) {
        acq!(self, RawRwLockRecursive::lock_shared_recursive())
    }
    fn try_lock_shared_recursive(&self) -> bool {
        try_acq!(self, RawRwLockRecursive::try_lock_shared_recursive())
    }
}
unsafe impl lock_api::RawRwLockTimed for RawRwLock {
    type Duration = Duration;
    type Instant = Instant;
    fn try_lock_shared_for(&self, d: Duration) -> bool {
        try_acq!(self, RawRwLockTimed::try_lock_shared_for(d))
    }
    fn try_lock_shared_until(&self, t: Instant) -> bool {
        try_acq!(self, RawRwLockTimed::try_lock_shared_until(t))
    }
    fn try_lock_exclusive_for(&self, d: Duration) -> bool {
        try_acq!(self, RawRwLockTimed::try_lock_exclusive_for(d))
    }
    fn try_lock_exclusive_until(&self, t: Instant) -> bool {
        try_acq!(self, RawRwLockTimed::try_lock_exclusive_until(t))
    }
}
unsafe impl lock_api::RawRwLockUpgrade for RawRwLock {
    fn lock_upgradable(&self) {
        acq!(self, RawRwLockUpgrade::lock_upgradable())
    }
    fn try_lock_upgradable(&self) -> bool {
        try_acq!(self, RawRwLockUpgrade::try_lock_upgradable())
    }
    unsafe fn unlock_upgradable(&self) {
        rel!(self, RawRwLockUpgrade::unlock_upgradable)
    }
    unsafe fn upgrade(&self) {
        lock_api::RawRwLockUpgrade::upgrade(&self.0)
    }
    unsafe fn try_upgrade(&self) -> bool {
        lock_api::RawRwLockUpgrade::try_upgrade(&self.0)
    }
}
unsafe impl lock_api::RawRwLockUpgradeFair for RawRwLock {
    unsafe fn unlock_upgradable_fair(&self) {
        rel!(self, RawRwLockUpgradeFair::unlock_upgradable_fair)
    }
}
unsafe impl lock_api::RawRwLockUpgradeDowngrade for RawRwLock {
    unsafe fn downgrade_upgradable(&self) {
        lock_api::RawRwLockUpgradeDowngrade::downgrade_upgradable(&self.0)
    }
    unsafe fn downgrade_to_upgradable(&self) {
        lock_api::RawRwLockUpgradeDowngrade::downgrade_to_upgradable(&self.0)
    }
}
pub type RwLock<T> = lock_api::RwLock<RawRwLock, T>;
pub type RwLockReadGuard<'a, T> = lock_api::RwLockReadGuard<'a, RawRwLock, T>;
pub type RwLockWriteGuard<'a, T> = lock_api::RwLockWriteGuard<'a, RawRwLock, T>;
pub type RwLockUpgradableReadGuard<'a, T> = lock_api::RwLockUpgradableReadGuard<'a, RawRwLock, T>;
pub type MappedRwLockReadGuard<'a, T> = lock_api::MappedRwLockReadGuard<'a, RawRwLock, T>;
pub type MappedRwLockWriteGuard<'a, T> = lock_api::MappedRwLockWriteGuard<'a, RawRwLock, T>;
pub const fn const_rwlock<T>(val: T) -> RwLock<T> {
    RwLock::const_new(<RawRwLock as lock_api::RawRwLock>::INIT, val)
}
