//! Deterministic simulation runtime for zmq.rs: single-threaded executor, virtual clock,
//! in-memory network and file namespaces, entropy source, all driven by choice tapes.
//!
//! The library under test reaches this crate only through the `#[cfg(zmq_verif)]` seam lines in
//! `src/async_rt` and `src/transport`. The API shape mirrors async-std (which the library already
//! supports): `task::spawn`, `task::sleep`, `future::timeout`, `net::{TcpListener, TcpStream}`,
//! `os::unix::net::{UnixListener, UnixStream}`, `fs::remove_file`.

pub mod entropy;
pub mod net;
pub mod tape;

use futures::task::ArcWake;
use std::any::Any;
use std::cell::{Cell, RefCell};
use std::collections::{BTreeMap, VecDeque};
use std::future::Future;
use std::pin::Pin;
use std::rc::Rc;
use std::sync::atomic::{AtomicBool, Ordering};
use std::sync::{Arc, Mutex};
use std::task::{Context, Poll, Waker};
use std::time::Duration;
pub use tape::{Rng, Stream, Tape};

// ------------------------------------------------------------------------------------------------
// deferred wakes / waker drops: never wake or drop a foreign waker while a simulator lock is held
// ------------------------------------------------------------------------------------------------
thread_local! {
    static DEFER: RefCell<Vec<(Waker, bool)>> = const { RefCell::new(Vec::new()) };
    static RT: RefCell<Option<Rc<Rt>>> = const { RefCell::new(None) };
    static LAST_PANIC: RefCell<Option<(String, String)>> = const { RefCell::new(None) };
}
pub fn defer_wake(w: Waker) {
    DEFER.with(|d| d.borrow_mut().push((w, true)));
}
pub fn defer_drop(w: Option<Waker>) {
    if let Some(w) = w {
        DEFER.with(|d| d.borrow_mut().push((w, false)));
    }
}
pub fn flush_deferred() {
    loop {
        let v: Vec<_> = DEFER.with(|d| std::mem::take(&mut *d.borrow_mut()));
        if v.is_empty() {
            break;
        }
        for (w, wake) in v {
            if wake {
                w.wake();
            } else {
                drop(w);
            }
        }
    }
}

pub fn live_trace() -> bool {
    static V: std::sync::OnceLock<bool> = std::sync::OnceLock::new();
    *V.get_or_init(|| std::env::var_os("ZSIM_LIVE_TRACE").is_some())
}

pub fn install_panic_hook() {
    static ONCE: std::sync::Once = std::sync::Once::new();
    ONCE.call_once(|| {
        std::panic::set_hook(Box::new(|info| {
            let msg = info
                .payload()
                .downcast_ref::<String>()
                .cloned()
                .or_else(|| info.payload().downcast_ref::<&str>().map(|s| s.to_string()))
                .unwrap_or_else(|| "<non-string panic>".into());
            let loc = info.location().map(|l| format!("{}:{}", l.file(), l.line())).unwrap_or_default();
            if std::env::var_os("ZSIM_PANIC_VERBOSE").is_some() {
                eprintln!("[panic] {msg} at {loc}");
            }
            LAST_PANIC.with(|p| *p.borrow_mut() = Some((msg, loc)));
        }));
    });
}
pub fn take_last_panic() -> Option<(String, String)> {
    LAST_PANIC.with(|p| p.borrow_mut().take())
}

// ------------------------------------------------------------------------------------------------
// runtime
// ------------------------------------------------------------------------------------------------
#[derive(Clone, Copy, PartialEq, Eq, Debug, PartialOrd, Ord)]
pub enum Choice {
    Task(usize),
    Deliver(usize, u8),
}

struct TaskWaker {
    id: usize,
    queued: AtomicBool,
    q: Arc<Mutex<VecDeque<Choice>>>,
}
impl ArcWake for TaskWaker {
    fn wake_by_ref(a: &Arc<Self>) {
        if !a.queued.swap(true, Ordering::SeqCst) {
            if live_trace() {
                eprintln!("    wake task {}", a.id);
            }
            a.q.lock().unwrap().push_back(Choice::Task(a.id));
        }
    }
}

type BoxFut = Pin<Box<dyn Future<Output = ()> + 'static>>;

struct TaskSlot {
    fut: Option<BoxFut>,
    waker: Arc<TaskWaker>,
    name: String,
    library: bool,
    polls: u64,
}

#[derive(Clone, Debug)]
pub struct PanicRec {
    pub task: String,
    pub library_task: bool,
    pub msg: String,
    pub loc: String,
}

/// Advances with every scheduler step of whatever run is executing in this process: a watchdog on
/// another thread tells "stopped returning to the scheduler" from "slow" with it.
thread_local! {
    /// bytes moved over simulated connections by this run's thread (reads and writes that
    /// transferred something): what tells a slow run from a spinning one
    pub static IO_PROGRESS: Cell<u64> = const { Cell::new(0) };
}
pub static PROGRESS: std::sync::atomic::AtomicU64 = std::sync::atomic::AtomicU64::new(0);

#[derive(Clone, Copy, Debug)]
pub struct Policy {
    /// probability (percent) that the head of the FIFO run queue is chosen; otherwise uniform
    pub head_pct: u8,
    /// probability (per mille) that a nested environment event runs at a mutex boundary
    pub preempt_pm: u16,
    /// allow spurious wake injection at nested points
    pub spurious: bool,
    /// starve one task: (task id, per-mille chance per step that it may run anyway). A task that
    /// is held back for long stretches is how rare races between a background task (an accept
    /// handshake, a reader) and many foreground operations are reached
    pub starve: Option<(usize, u16)>,
    /// cooperative-scheduling budget of the transport, as tokio's: (operations per task poll,
    /// immediate). Once a task has completed that many reads/writes within one poll, every further
    /// transport operation of that poll returns Pending and wakes the caller - at once from inside
    /// the call (what tokio does for a future driven by `block_on`, e.g. the body of
    /// `#[tokio::main]`), or after the poll has returned (what it does on a worker thread)
    pub coop: Option<(u32, bool)>,
}
impl Default for Policy {
    fn default() -> Self {
        Policy { head_pct: 100, preempt_pm: 0, spurious: false, starve: None, coop: None }
    }
}

pub struct Rt {
    pub tapes: RefCell<[Tape; tape::NSTREAMS]>,
    tasks: RefCell<Vec<TaskSlot>>,
    new_tasks: RefCell<Vec<(BoxFut, String, bool)>>,
    runq: Arc<Mutex<VecDeque<Choice>>>,
    timers: RefCell<BTreeMap<(Duration, u64), Waker>>,
    timer_seq: Cell<u64>,
    now: Cell<Duration>,
    idle: RefCell<VecDeque<(Waker, Arc<AtomicBool>)>>,
    pub net: RefCell<net::Net>,
    pub steps: Cell<u64>,
    pub trace_hash: Cell<u64>,
    pub seq: Cell<u64>,
    pub panics: RefCell<Vec<PanicRec>>,
    pub policy: Cell<Policy>,
    pub counters: RefCell<BTreeMap<&'static str, u64>>,
    pub trace: RefCell<Option<Vec<String>>>,
    pub idle_rounds: Cell<u64>,
    next_task_id: Cell<usize>,
    in_nested: Cell<bool>,
    /// nested environment events still allowed in the current executor step (bounds the rate of
    /// injected wakes so that the injection itself cannot livelock a polling loop)
    nested_left: Cell<u32>,
    /// transport operations completed in the current task poll / exhausted returns in it
    pub coop_used: Cell<u32>,
    pub coop_refused: Cell<u32>,
    /// set by the transport when one task poll has been refused so often that it can only be
    /// spinning on the self-waking transport; the poll is then unwound
    pub spin_pending: Cell<bool>,
    pub spins: RefCell<Vec<String>>,
}

pub fn rt() -> Rc<Rt> {
    RT.with(|r| r.borrow().as_ref().expect("no simulation runtime on this thread").clone())
}
pub fn try_rt() -> Option<Rc<Rt>> {
    RT.try_with(|r| r.try_borrow().ok().and_then(|b| b.as_ref().cloned())).ok().flatten()
}

/// Next global event sequence number.
pub fn next_seq() -> u64 {
    match try_rt() {
        Some(rt) => {
            let s = rt.seq.get() + 1;
            rt.seq.set(s);
            s
        }
        None => 0,
    }
}
pub fn cur_seq() -> u64 {
    try_rt().map(|r| r.seq.get()).unwrap_or(0)
}
pub fn count(name: &'static str) {
    count_n(name, 1)
}
pub fn count_n(name: &'static str, n: u64) {
    if let Some(rt) = try_rt() {
        *rt.counters.borrow_mut().entry(name).or_insert(0) += n;
    }
}
pub fn draw(s: Stream, n: u64) -> u64 {
    rt().tapes.borrow_mut()[s as usize].draw(n)
}
pub fn draw_rare(s: Stream, n: u64, num: u64, den: u64) -> u64 {
    rt().tapes.borrow_mut()[s as usize].draw_rare(n, num, den)
}
pub fn now() -> Duration {
    rt().now.get()
}

pub struct RunCfg {
    pub seed: u64,
    pub replay: Option<[Vec<u32>; tape::NSTREAMS]>,
    pub record: bool,
    pub trace: bool,
    /// optional externally visible copies of the recorded tapes
    pub shared_rec: Option<[std::sync::Arc<std::sync::Mutex<Vec<u32>>>; tape::NSTREAMS]>,
}

#[derive(Debug, Clone, Copy, PartialEq, Eq)]
pub enum RunEnd {
    Quiescent,
    Budget,
}

pub struct Sim {
    pub rt: Rc<Rt>,
}

fn select_hook(n: usize) -> usize {
    // Fisher-Yates asks for an index in 0..n to swap position n-1 with; n-1 = "no swap".
    // Draw 0 = identity order, so an exhausted tape gives source order.
    let d = draw(Stream::Select, n as u64) as usize;
    count("select_shuffle");
    n - 1 - d
}

impl Sim {
    pub fn new(cfg: RunCfg) -> Sim {
        install_panic_hook();
        let tapes = match cfg.replay {
            Some(t) => {
                let [a, b, c, d] = t;
                [Tape::replay(a), Tape::replay(b), Tape::replay(c), Tape::replay(d)]
            }
            None => [
                Tape::gen(tape::mix(cfg.seed, 1), cfg.record),
                Tape::gen(tape::mix(cfg.seed, 2), cfg.record),
                Tape::gen(tape::mix(cfg.seed, 3), cfg.record),
                Tape::gen(tape::mix(cfg.seed, 4), cfg.record),
            ],
        };
        let mut tapes = tapes;
        if let Some(sh) = cfg.shared_rec {
            for (i, a) in sh.into_iter().enumerate() {
                tapes[i].shared = Some(a);
            }
        }
        let rt = Rc::new(Rt {
            tapes: RefCell::new(tapes),
            tasks: RefCell::new(Vec::new()),
            new_tasks: RefCell::new(Vec::new()),
            runq: Arc::new(Mutex::new(VecDeque::new())),
            timers: RefCell::new(BTreeMap::new()),
            timer_seq: Cell::new(0),
            now: Cell::new(Duration::ZERO),
            idle: RefCell::new(VecDeque::new()),
            net: RefCell::new(net::Net::new()),
            steps: Cell::new(0),
            trace_hash: Cell::new(0xcbf2_9ce4_8422_2325),
            seq: Cell::new(0),
            panics: RefCell::new(Vec::new()),
            policy: Cell::new(Policy::default()),
            counters: RefCell::new(BTreeMap::new()),
            trace: RefCell::new(if cfg.trace { Some(Vec::new()) } else { None }),
            idle_rounds: Cell::new(0),
            next_task_id: Cell::new(0),
            in_nested: Cell::new(false),
            nested_left: Cell::new(0),
            coop_used: Cell::new(0),
            coop_refused: Cell::new(0),
            spin_pending: Cell::new(false),
            spins: RefCell::new(Vec::new()),
        });
        RT.with(|r| *r.borrow_mut() = Some(rt.clone()));
        entropy::seed(tape::mix(cfg.seed, 5));
        futures_util::__private::async_await::__sim_set_random_hook(Some(select_hook));
        zmq_sim_sync::set_preempt_hook(Some(Box::new(nested_env_event)));
        Sim { rt }
    }

    fn admit(&self) {
        let new: Vec<_> = std::mem::take(&mut *self.rt.new_tasks.borrow_mut());
        for (fut, name, library) in new {
            let mut tasks = self.rt.tasks.borrow_mut();
            let id = tasks.len();
            let waker = Arc::new(TaskWaker { id, queued: AtomicBool::new(true), q: self.rt.runq.clone() });
            tasks.push(TaskSlot { fut: Some(fut), waker, name, library, polls: 0 });
            self.rt.runq.lock().unwrap().push_back(Choice::Task(id));
        }
    }

    /// Run until quiescent (nothing runnable, nobody on the idle barrier, no timer) or until the
    /// step budget is exhausted.
    /// Runs until nothing can happen any more (`Quiescent`) or the step budget is used up
    /// (`Budget`: the scenarios report that as "no quiescence", i.e. something spins). A run that is
    /// still moving bytes over its connections when the budget ends is slow, not spinning (a large
    /// message under one-byte chunks and a cooperative budget of two takes millions of steps): it
    /// is given the budget again, up to 32 times in all, as long as bytes moved since the last
    /// time it asked.
    pub fn run(&self, max_steps: u64) -> RunEnd {
        let rt = &self.rt;
        let mut limit = rt.steps.get().max(0) + max_steps;
        let mut extensions = 0u32;
        let mut seen_progress = IO_PROGRESS.with(|p| p.get());
        loop {
            self.admit();
            if rt.steps.get() >= limit {
                let p = IO_PROGRESS.with(|p| p.get());
                if p != seen_progress && extensions < 31 {
                    seen_progress = p;
                    extensions += 1;
                    limit += max_steps;
                    continue;
                }
                return RunEnd::Budget;
            }
            let n = rt.runq.lock().unwrap().len();
            if n == 0 {
                // idle barrier first, then timers
                let w = rt.idle.borrow_mut().pop_front();
                if let Some((w, fired)) = w {
                    rt.idle_rounds.set(rt.idle_rounds.get() + 1);
                    fired.store(true, Ordering::SeqCst);
                    w.wake();
                    continue;
                }
                let t = rt.timers.borrow_mut().pop_first();
                if let Some(((at, _), w)) = t {
                    if at > rt.now.get() {
                        rt.now.set(at);
                    }
                    w.wake();
                    continue;
                }
                return RunEnd::Quiescent;
            }
            let pol = rt.policy.get();
            let idx = {
                // generation-time shaping only: the tape records the resulting queue index
                let allowed: Option<Vec<usize>> = match pol.starve {
                    Some((victim, _)) => {
                        let q = rt.runq.lock().unwrap();
                        let a: Vec<usize> = q.iter().enumerate().filter(|(_, c)| **c != Choice::Task(victim)).map(|(i, _)| i).collect();
                        if a.is_empty() || a.len() == q.len() {
                            None
                        } else {
                            Some(a)
                        }
                    }
                    None => None,
                };
                let mut tapes = rt.tapes.borrow_mut();
                tapes[Stream::Sched as usize].draw_with(n as u64, |r| {
                    if let (Some(a), Some((_, release_pm))) = (&allowed, pol.starve) {
                        if r.below(1000) >= release_pm as u64 {
                            return if pol.head_pct >= 100 || r.below(100) < pol.head_pct as u64 { a[0] as u64 } else { a[r.below(a.len() as u64) as usize] as u64 };
                        }
                    }
                    if pol.head_pct >= 100 || r.below(100) < pol.head_pct as u64 {
                        0
                    } else {
                        r.below(n as u64)
                    }
                }) as usize
            };
            let choice = rt.runq.lock().unwrap().remove(idx).unwrap();
            rt.steps.set(rt.steps.get() + 1);
            PROGRESS.fetch_add(1, Ordering::Relaxed);
            rt.nested_left.set(3);
            next_seq();
            let code = match choice {
                Choice::Task(id) => (id as u64) << 2,
                Choice::Deliver(c, d) => ((c as u64) << 3 | (d as u64) << 2) | 1,
            };
            rt.trace_hash.set((rt.trace_hash.get() ^ code).wrapping_mul(0x100_0000_01b3));
            if let Some(t) = rt.trace.borrow_mut().as_mut() {
                if t.len() < 4000 {
                    t.push(match choice {
                        Choice::Task(id) => format!("T{id}"),
                        Choice::Deliver(c, d) => format!("D{c}.{d}"),
                    });
                }
            }
            if live_trace() {
                match choice {
                    Choice::Task(id) => eprintln!("[step {}] task {} {}", rt.steps.get(), id, rt.tasks.borrow()[id].name),
                    Choice::Deliver(c, d) => eprintln!("[step {}] deliver conn {} dir {}", rt.steps.get(), c, d),
                }
            }
            match choice {
                Choice::Task(id) => self.poll_task(id),
                Choice::Deliver(c, d) => net::deliver(rt, c, d),
            }
            flush_deferred();
        }
    }

    fn poll_task(&self, id: usize) {
        let rt = &self.rt;
        let (fut, waker) = {
            let mut tasks = rt.tasks.borrow_mut();
            let t = &mut tasks[id];
            t.waker.queued.store(false, Ordering::SeqCst);
            t.polls += 1;
            (t.fut.take(), t.waker.clone())
        };
        let Some(mut fut) = fut else { return };
        let w = futures::task::waker(waker);
        let mut cx = Context::from_waker(&w);
        rt.coop_used.set(0);
        rt.coop_refused.set(0);
        let res = std::panic::catch_unwind(std::panic::AssertUnwindSafe(|| fut.as_mut().poll(&mut cx)));
        match res {
            Ok(Poll::Pending) => {
                rt.tasks.borrow_mut()[id].fut = Some(fut);
            }
            Ok(Poll::Ready(())) => {
                drop(fut);
            }
            Err(_p) => {
                let (msg, loc) = take_last_panic().unwrap_or_default();
                let (name, library) = {
                    let tasks = rt.tasks.borrow();
                    (tasks[id].name.clone(), tasks[id].library)
                };
                if rt.spin_pending.replace(false) {
                    // not a panic of the code under test: the transport unwound a poll that was
                    // spinning on it (see net::coop_gate)
                    rt.spins.borrow_mut().push(name);
                } else {
                    rt.panics.borrow_mut().push(PanicRec { task: name, library_task: library, msg, loc });
                }
                // the future is poisoned: drop it (may itself panic again; contain that too)
                let _ = std::panic::catch_unwind(std::panic::AssertUnwindSafe(move || drop(fut)));
            }
        }
    }

    pub fn live_tasks(&self) -> Vec<(String, bool)> {
        self.rt.tasks.borrow().iter().filter(|t| t.fut.is_some()).map(|t| (t.name.clone(), t.library)).collect()
    }
    pub fn live_library_tasks(&self) -> Vec<String> {
        self.live_tasks().into_iter().filter(|t| t.1).map(|t| t.0).collect()
    }
    pub fn recorded(&self) -> [Vec<u32>; tape::NSTREAMS] {
        let t = self.rt.tapes.borrow();
        [t[0].rec.clone(), t[1].rec.clone(), t[2].rec.clone(), t[3].rec.clone()]
    }
}

impl Drop for Sim {
    fn drop(&mut self) {
        zmq_sim_sync::set_preempt_hook(None);
        let rt = &self.rt;
        // break waker cycles, then drop all tasks outside of any borrow
        let tasks: Vec<_> = rt.tasks.borrow_mut().iter_mut().map(|t| t.fut.take()).collect();
        let _ = std::panic::catch_unwind(std::panic::AssertUnwindSafe(move || drop(tasks)));
        let new: Vec<_> = std::mem::take(&mut *rt.new_tasks.borrow_mut());
        let _ = std::panic::catch_unwind(std::panic::AssertUnwindSafe(move || drop(new)));
        flush_deferred();
        let timers = std::mem::take(&mut *rt.timers.borrow_mut());
        drop(timers);
        let idle = std::mem::take(&mut *rt.idle.borrow_mut());
        drop(idle);
        let net = std::mem::replace(&mut *rt.net.borrow_mut(), net::Net::new());
        net.teardown();
        drop(net);
        flush_deferred();
        // second round: anything spawned or re-registered during teardown
        let tasks: Vec<_> = rt.tasks.borrow_mut().iter_mut().map(|t| t.fut.take()).collect();
        drop(tasks);
        let new: Vec<_> = std::mem::take(&mut *rt.new_tasks.borrow_mut());
        drop(new);
        flush_deferred();
        futures_util::__private::async_await::__sim_set_random_hook(None);
        RT.with(|r| *r.borrow_mut() = None);
    }
}

/// Environment event run at a mutex boundary of the library (the "reactor thread" acting while a
/// task is between two critical sections): deliver in-flight bytes on some connection and fire the
/// reader's waker right there, or fire a registered waker spuriously.
fn nested_env_event(_kind: &'static str) {
    let Some(rt) = try_rt() else { return };
    let pol = rt.policy.get();
    if pol.preempt_pm == 0 || rt.in_nested.get() || rt.nested_left.get() == 0 {
        return;
    }
    count("mutex_boundary_points");
    let Ok(mut tapes) = rt.tapes.try_borrow_mut() else { return };
    let fire = tapes[Stream::Sched as usize].draw_rare(2, pol.preempt_pm as u64, 1000);
    drop(tapes);
    if fire == 0 {
        return;
    }
    rt.nested_left.set(rt.nested_left.get() - 1);
    rt.in_nested.set(true);
    // candidates: queued deliveries (in queue order)
    let cands: Vec<(usize, Choice)> = {
        let q = rt.runq.lock().unwrap();
        q.iter().cloned().enumerate().filter(|(_, c)| matches!(c, Choice::Deliver(..))).collect()
    };
    let extra = if pol.spurious { 1 } else { 0 };
    let n = cands.len() + extra;
    if n > 0 {
        let k = rt.tapes.borrow_mut()[Stream::Sched as usize].draw(n as u64) as usize;
        if k < cands.len() {
            let (_, ch) = cands[k];
            let mut q = rt.runq.lock().unwrap();
            if let Some(pos) = q.iter().position(|c| *c == ch) {
                q.remove(pos);
            }
            drop(q);
            if let Choice::Deliver(c, d) = ch {
                next_seq();
                rt.trace_hash.set((rt.trace_hash.get() ^ (((c as u64) << 3 | (d as u64) << 2) | 3)).wrapping_mul(0x100_0000_01b3));
                net::deliver(&rt, c, d);
                count("nested_deliver");
            }
        } else {
            net::spurious_wake(&rt);
        }
        flush_deferred();
    }
    rt.in_nested.set(false);
}

// ------------------------------------------------------------------------------------------------
// tasks, timers
// ------------------------------------------------------------------------------------------------
pub mod task {
    use super::*;

    #[derive(Debug)]
    pub enum JoinError {
        Cancelled,
        Panic(Box<dyn Any + Send + 'static>),
    }
    struct Slot<T> {
        val: Option<Result<T, JoinError>>,
        waker: Option<Waker>,
        sender_alive: bool,
    }
    pub struct JoinHandle<T> {
        slot: Arc<Mutex<Slot<T>>>,
    }
    struct Completer<T> {
        slot: Arc<Mutex<Slot<T>>>,
    }
    impl<T> Drop for Completer<T> {
        fn drop(&mut self) {
            let w = {
                let mut s = self.slot.lock().unwrap();
                s.sender_alive = false;
                s.waker.take()
            };
            if let Some(w) = w {
                defer_wake(w);
            }
        }
    }
    impl<T> Future for JoinHandle<T> {
        type Output = Result<T, JoinError>;
        fn poll(self: Pin<&mut Self>, cx: &mut Context<'_>) -> Poll<Self::Output> {
            let mut s = self.slot.lock().unwrap();
            if let Some(v) = s.val.take() {
                return Poll::Ready(v);
            }
            if !s.sender_alive {
                return Poll::Ready(Err(JoinError::Cancelled));
            }
            let old = s.waker.replace(cx.waker().clone());
            drop(s);
            defer_drop(old);
            Poll::Pending
        }
    }

    /// Library-facing spawn (the `async_rt::task::spawn` seam).
    #[track_caller]
    pub fn spawn<F>(f: F) -> JoinHandle<F::Output>
    where
        F: Future + Send + 'static,
        F::Output: Send + 'static,
    {
        let loc = std::panic::Location::caller();
        let name = format!("{}:{}", loc.file(), loc.line());
        spawn_named(f, name, true)
    }

    pub fn spawn_named<F>(f: F, name: String, library: bool) -> JoinHandle<F::Output>
    where
        F: Future + 'static,
        F::Output: 'static,
    {
        let slot = Arc::new(Mutex::new(Slot { val: None, waker: None, sender_alive: true }));
        let completer = Completer { slot: slot.clone() };
        let tname = name.clone();
        let fut = async move {
            use futures::FutureExt;
            let r = std::panic::AssertUnwindSafe(f).catch_unwind().await;
            let w = {
                let mut s = completer.slot.lock().unwrap();
                match r {
                    Ok(v) => s.val = Some(Ok(v)),
                    Err(p) => {
                        let (msg, loc) = take_last_panic().unwrap_or_default();
                        if let Some(rt) = try_rt() {
                            if p.is::<crate::net::CoopSpin>() {
                                // the transport unwound a poll that was spinning on it (net::coop_gate)
                                rt.spin_pending.set(false);
                                rt.spins.borrow_mut().push(tname);
                            } else {
                                rt.panics.borrow_mut().push(PanicRec { task: tname, library_task: library, msg, loc });
                            }
                        }
                        s.val = Some(Err(JoinError::Panic(p)));
                    }
                }
                s.waker.take()
            };
            if let Some(w) = w {
                defer_wake(w);
            }
        };
        let rt = rt();
        rt.next_task_id.set(rt.next_task_id.get() + 1);
        rt.new_tasks.borrow_mut().push((Box::pin(fut), name, library));
        JoinHandle { slot }
    }

    /// Harness-side actor (need not be Send).
    pub fn spawn_local<F>(name: &str, f: F) -> JoinHandle<F::Output>
    where
        F: Future + 'static,
        F::Output: 'static,
    {
        spawn_named(f, name.to_string(), false)
    }

    pub struct Sleep {
        deadline: Option<Duration>,
        dur: Duration,
        key: Option<(Duration, u64)>,
    }
    impl Future for Sleep {
        type Output = ();
        fn poll(mut self: Pin<&mut Self>, cx: &mut Context<'_>) -> Poll<()> {
            let rt = rt();
            let dur = self.dur;
            let dl = *self.deadline.get_or_insert(rt.now.get() + dur);
            if let Some(k) = self.key.take() {
                let old = rt.timers.borrow_mut().remove(&k);
                drop(old);
            }
            if rt.now.get() >= dl {
                return Poll::Ready(());
            }
            rt.timer_seq.set(rt.timer_seq.get() + 1);
            let k = (dl, rt.timer_seq.get());
            rt.timers.borrow_mut().insert(k, cx.waker().clone());
            self.key = Some(k);
            Poll::Pending
        }
    }
    impl Drop for Sleep {
        fn drop(&mut self) {
            if let Some(k) = self.key.take() {
                if let Some(rt) = try_rt() {
                    if let Ok(mut t) = rt.timers.try_borrow_mut() {
                        let w = t.remove(&k);
                        drop(t);
                        defer_drop(w);
                    }
                }
            }
        }
    }
    pub fn sleep(d: Duration) -> Sleep {
        Sleep { deadline: None, dur: d, key: None }
    }

    /// Completes when the simulation would otherwise be quiescent (nothing runnable, no in-flight
    /// delivery). Waiters are released one at a time in arrival order.
    pub struct Idle {
        fired: Option<Arc<AtomicBool>>,
    }
    impl Future for Idle {
        type Output = ();
        fn poll(mut self: Pin<&mut Self>, cx: &mut Context<'_>) -> Poll<()> {
            match &self.fired {
                Some(f) => {
                    if f.load(Ordering::SeqCst) {
                        Poll::Ready(())
                    } else {
                        // woken for another reason: stay registered (the queued waker still
                        // belongs to this task)
                        Poll::Pending
                    }
                }
                None => {
                    let f = Arc::new(AtomicBool::new(false));
                    self.fired = Some(f.clone());
                    rt().idle.borrow_mut().push_back((cx.waker().clone(), f));
                    Poll::Pending
                }
            }
        }
    }
    pub fn idle() -> Idle {
        Idle { fired: None }
    }

    /// Co-operative yield: Pending once, self-woken.
    pub struct YieldNow(bool);
    impl Future for YieldNow {
        type Output = ();
        fn poll(mut self: Pin<&mut Self>, cx: &mut Context<'_>) -> Poll<()> {
            if self.0 {
                return Poll::Ready(());
            }
            self.0 = true;
            cx.waker().wake_by_ref();
            Poll::Pending
        }
    }
    pub fn yield_now() -> YieldNow {
        YieldNow(false)
    }
}

pub mod future {
    use super::*;
    #[derive(Debug)]
    pub struct TimeoutError;
    impl std::fmt::Display for TimeoutError {
        fn fmt(&self, f: &mut std::fmt::Formatter<'_>) -> std::fmt::Result {
            write!(f, "sim timeout")
        }
    }
    impl std::error::Error for TimeoutError {}
    pub async fn timeout<F: Future>(d: Duration, f: F) -> Result<F::Output, TimeoutError> {
        use futures::FutureExt;
        let mut s = task::sleep(d).fuse();
        let f = f.fuse();
        futures::pin_mut!(f);
        futures::select_biased! { v = f => Ok(v), _ = s => Err(TimeoutError) }
    }

    /// Poll `f` at most `budget` times (each time it is woken), then drop it: the cancellation
    /// fault of C14. Returns None if abandoned.
    pub struct PollBudget<F> {
        pub f: Pin<Box<F>>,
        pub left: u32,
        pub polls: u32,
    }
    impl<F: Future> Future for PollBudget<F> {
        type Output = Option<F::Output>;
        fn poll(mut self: Pin<&mut Self>, cx: &mut Context<'_>) -> Poll<Self::Output> {
            if self.left == 0 {
                return Poll::Ready(None);
            }
            self.left -= 1;
            self.polls += 1;
            match self.f.as_mut().poll(cx) {
                Poll::Ready(v) => Poll::Ready(Some(v)),
                Poll::Pending => {
                    if self.left == 0 {
                        Poll::Ready(None)
                    } else {
                        Poll::Pending
                    }
                }
            }
        }
    }
    /// Run `f` until it completes or until the simulation would otherwise be quiescent (nothing
    /// runnable, nothing in flight): then `f` is polled one last time and dropped. This is how a
    /// scenario says "receive whatever arrives, and go on once nothing more can arrive".
    pub struct OrIdle<F> {
        f: Pin<Box<F>>,
        idle: Option<task::Idle>,
    }
    impl<F: Future> Future for OrIdle<F> {
        type Output = Option<F::Output>;
        fn poll(mut self: Pin<&mut Self>, cx: &mut Context<'_>) -> Poll<Self::Output> {
            if let Poll::Ready(v) = self.f.as_mut().poll(cx) {
                return Poll::Ready(Some(v));
            }
            let this = &mut *self;
            let idle = this.idle.get_or_insert_with(task::idle);
            match Pin::new(idle).poll(cx) {
                Poll::Ready(()) => Poll::Ready(None),
                Poll::Pending => Poll::Pending,
            }
        }
    }
    pub fn or_idle<F: Future>(f: F) -> OrIdle<F> {
        OrIdle { f: Box::pin(f), idle: None }
    }

    pub fn poll_budget<F: Future>(f: F, budget: u32) -> PollBudget<F> {
        PollBudget { f: Box::pin(f), left: budget, polls: 0 }
    }
}

pub mod os {
    pub mod unix {
        pub mod net {
            pub use crate::net::{UnixListener, UnixStream};
        }
    }
}
pub mod fs {
    pub use crate::net::remove_file;
}
