//! Choice tapes: every random decision of a run is a bounded draw from one of a few named tapes.
//! In generation mode a tape is a PRNG (seeded from the run seed); in replay mode it is a recorded
//! list of draws (exhausted tape = 0 = the simplest choice). Recording is optional.

#[derive(Clone)]
pub struct Rng(pub u64);
impl Rng {
    #[inline]
    pub fn next(&mut self) -> u64 {
        // splitmix64
        self.0 = self.0.wrapping_add(0x9E37_79B9_7F4A_7C15);
        let mut z = self.0;
        z = (z ^ (z >> 30)).wrapping_mul(0xBF58_476D_1CE4_E5B9);
        z = (z ^ (z >> 27)).wrapping_mul(0x94D0_49BB_1331_11EB);
        z ^ (z >> 31)
    }
    #[inline]
    pub fn below(&mut self, n: u64) -> u64 {
        if n <= 1 {
            0
        } else {
            self.next() % n
        }
    }
    #[inline]
    pub fn chance(&mut self, num: u64, den: u64) -> bool {
        self.below(den) < num
    }
}

pub fn mix(a: u64, b: u64) -> u64 {
    let mut r = Rng(a ^ b.wrapping_mul(0xD6E8_FEB8_6659_FD93));
    r.next() ^ b.rotate_left(17)
}

pub fn hash_str(s: &str) -> u64 {
    let mut h = 0xcbf2_9ce4_8422_2325u64;
    for b in s.bytes() {
        h = (h ^ b as u64).wrapping_mul(0x100_0000_01b3);
    }
    h
}

#[derive(Clone, Copy, PartialEq, Eq, Debug)]
#[repr(usize)]
pub enum Stream {
    /// workload / plan generation
    Plan = 0,
    /// scheduler: which runnable choice next, nested environment events
    Sched = 1,
    /// transport: chunk sizes, co-operative yields, delivery sizes
    Io = 2,
    /// futures::select! branch order
    Select = 3,
}
pub const NSTREAMS: usize = 4;
pub const STREAM_NAMES: [&str; NSTREAMS] = ["plan", "sched", "io", "select"];

pub struct Tape {
    pub rng: Rng,
    pub replay: Option<Vec<u32>>,
    pub pos: usize,
    pub rec: Vec<u32>,
    /// when set, draws are also appended here (readable from a watchdog thread if the run hangs)
    pub shared: Option<std::sync::Arc<std::sync::Mutex<Vec<u32>>>>,
    pub recording: bool,
    pub draws: u64,
    /// rolling hash of all draws (identity of this tape's decisions)
    pub h: u64,
}

impl Tape {
    pub fn gen(seed: u64, recording: bool) -> Self {
        Tape { rng: Rng(seed), replay: None, pos: 0, rec: Vec::new(), shared: None, recording, draws: 0, h: 0xcbf2_9ce4_8422_2325 }
    }
    pub fn replay(v: Vec<u32>) -> Self {
        Tape { rng: Rng(0), replay: Some(v), pos: 0, rec: Vec::new(), shared: None, recording: true, draws: 0, h: 0xcbf2_9ce4_8422_2325 }
    }
    /// A value in 0..n. `gen` produces it in generation mode (allows biased distributions).
    #[inline]
    pub fn draw_with(&mut self, n: u64, gen: impl FnOnce(&mut Rng) -> u64) -> u64 {
        if n <= 1 {
            return 0;
        }
        self.draws += 1;
        let v = match &self.replay {
            Some(t) => {
                let v = t.get(self.pos).copied().unwrap_or(0) as u64 % n;
                self.pos += 1;
                v
            }
            None => gen(&mut self.rng).min(n - 1),
        };
        self.h = (self.h ^ v ^ (n << 32)).wrapping_mul(0x100_0000_01b3);
        if self.recording {
            self.rec.push(v as u32);
            if let Some(sh) = &self.shared {
                sh.lock().unwrap().push(v as u32);
            }
        }
        v
    }
    #[inline]
    pub fn draw(&mut self, n: u64) -> u64 {
        self.draw_with(n, |r| r.below(n))
    }
    /// 0 with probability (den-num)/den, otherwise uniform over 1..n
    #[inline]
    pub fn draw_rare(&mut self, n: u64, num: u64, den: u64) -> u64 {
        self.draw_with(n, |r| if r.chance(num, den) { 1 + r.below(n - 1) } else { 0 })
    }
}
