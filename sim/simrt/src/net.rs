//! In-memory network and file namespaces.
//!
//! A connection is two unidirectional byte channels. Every byte accepted from a writer is
//! recorded in that direction's *tap* together with the global event number. Faults (stall,
//! cut, reset, one-shot errors, spurious wakes) are applied by the harness through `Conn`.
use crate::{count, defer_drop, defer_wake, next_seq, rt, try_rt, Choice, Rt, Stream};
use std::collections::{BTreeMap, BTreeSet, VecDeque};
use std::io;
use std::net::{IpAddr, SocketAddr};
use std::path::{Path, PathBuf};
use std::pin::Pin;
use std::sync::{Arc, Mutex};
use std::task::{Context, Poll, Waker};

#[derive(Clone, Copy, Debug, PartialEq, Eq)]
pub enum Chunk {
    /// as much as possible
    Whole,
    /// one byte per call
    One,
    /// uniformly 1..=max (tape draw 0 = max)
    Random,
    /// at most n bytes per call
    Max(usize),
}

#[derive(Clone, Copy, Debug)]
pub struct NetProfile {
    pub cap: usize,
    pub read_chunk: Chunk,
    pub write_chunk: Chunk,
    /// per-mille probability that a library poll_read / poll_write answers Pending with a self-wake
    pub yield_pm: u16,
    /// written bytes pass through an in-flight stage, made visible by scheduler "deliver" events
    pub latency: bool,
    pub deliver_chunk: Chunk,
}
impl Default for NetProfile {
    fn default() -> Self {
        NetProfile { cap: 1 << 22, read_chunk: Chunk::Whole, write_chunk: Chunk::Whole, yield_pm: 0, latency: false, deliver_chunk: Chunk::Whole }
    }
}

pub struct Dir {
    inflight: VecDeque<u8>,
    visible: VecDeque<u8>,
    pub tap: Vec<u8>,
    /// (tap length after the write, global event number)
    pub stamps: Vec<(usize, u64)>,
    pub cap: usize,
    latency: bool,
    deliver_chunk: Chunk,
    deliver_queued: bool,
    /// writer endpoint closed: reader drains, then sees EOF
    pub w_closed: bool,
    /// reader endpoint closed: writer gets BrokenPipe
    pub r_closed: bool,
    pub reset: bool,
    rd_waker: Option<Waker>,
    wr_waker: Option<Waker>,
    stale: Vec<Waker>,
    /// writer sees no room regardless of capacity
    pub stall: bool,
    /// bytes are consumed on arrival (sink peers); the tap still records them
    pub auto_drain: bool,
    rd_err: Option<io::ErrorKind>,
    wr_err: Option<io::ErrorKind>,
    pub consumed: u64,
    /// number of times a write was answered Pending for lack of room
    pub write_pendings: u64,
    pub read_calls: u64,
    pub write_calls: u64,
    pub eof_delivered: Option<u64>,
    pub err_delivered: Option<u64>,
    /// harness tasks waiting for the tap to grow (or the direction to end)
    tap_waiters: Vec<Waker>,
    /// when false the tap keeps no content, only `tap_total` grows (memory oracles)
    pub record_tap: bool,
    /// total bytes ever accepted from the writer
    pub tap_total: u64,
}

impl Dir {
    fn new(p: &NetProfile) -> Dir {
        Dir {
            inflight: VecDeque::new(),
            visible: VecDeque::new(),
            tap: Vec::new(),
            stamps: Vec::new(),
            cap: p.cap,
            latency: p.latency,
            deliver_chunk: p.deliver_chunk,
            deliver_queued: false,
            w_closed: false,
            r_closed: false,
            reset: false,
            rd_waker: None,
            wr_waker: None,
            stale: Vec::new(),
            stall: false,
            auto_drain: false,
            rd_err: None,
            wr_err: None,
            consumed: 0,
            write_pendings: 0,
            read_calls: 0,
            write_calls: 0,
            eof_delivered: None,
            err_delivered: None,
            tap_waiters: Vec::new(),
            record_tap: true,
            tap_total: 0,
        }
    }
    fn wake_tap_waiters(&mut self) {
        for w in self.tap_waiters.drain(..) {
            defer_wake(w);
        }
    }
    pub fn buffered(&self) -> usize {
        self.inflight.len() + self.visible.len()
    }
    pub fn reader_parked(&self) -> bool {
        self.rd_waker.is_some()
    }
    pub fn writer_parked(&self) -> bool {
        self.wr_waker.is_some()
    }
}

#[derive(Default, Clone, Copy, Debug)]
pub struct SideState {
    pub read_half_dropped: Option<u64>,
    pub write_half_dropped: Option<u64>,
    pub closed: Option<u64>,
}

/// Per-side I/O behaviour of the (library) endpoint of a connection.
#[derive(Clone, Copy, Debug)]
pub struct SideIo {
    pub raw: bool,
    pub read_chunk: Chunk,
    pub write_chunk: Chunk,
    /// co-operative Pending probability (per mille) on reads
    pub yield_pm: u16,
    /// co-operative Pending probability (per mille) on writes
    pub wyield_pm: u16,
}

pub struct Conn {
    pub id: usize,
    pub label: String,
    /// dirs[0]: side 0 (connector) -> side 1 (acceptor); dirs[1]: side 1 -> side 0
    pub dirs: [Mutex<Dir>; 2],
    pub sides: Mutex<[SideState; 2]>,
    pub io: Mutex<[SideIo; 2]>,
}

impl Conn {
    pub fn dir(&self, d: usize) -> std::sync::MutexGuard<'_, Dir> {
        self.dirs[d].lock().unwrap()
    }
    /// bytes written by `side`
    pub fn tap_from(&self, side: usize) -> Vec<u8> {
        self.dir(side).tap.clone()
    }
    pub fn tap_len_from(&self, side: usize) -> usize {
        self.dir(side).tap.len()
    }
    pub fn side_state(&self, side: usize) -> SideState {
        self.sides.lock().unwrap()[side]
    }
    pub fn released(&self, side: usize) -> bool {
        self.side_state(side).closed.is_some()
    }
    pub fn set_io(&self, side: usize, f: impl FnOnce(&mut SideIo)) {
        f(&mut self.io.lock().unwrap()[side]);
    }
    /// stop/resume accepting bytes written by `from_side`
    pub fn set_stall(&self, from_side: usize, on: bool) {
        let w = {
            let mut d = self.dir(from_side);
            d.stall = on;
            if on {
                count("fault_stall");
                None
            } else {
                count("fault_resume");
                d.wr_waker.take()
            }
        };
        if let Some(w) = w {
            defer_wake(w);
        }
    }
    pub fn set_cap(&self, from_side: usize, cap: usize) {
        let w = {
            let mut d = self.dir(from_side);
            d.cap = cap;
            d.wr_waker.take()
        };
        if let Some(w) = w {
            defer_wake(w);
        }
    }
    pub fn set_auto_drain(&self, from_side: usize, on: bool) {
        let w = {
            let mut d = self.dir(from_side);
            d.auto_drain = on;
            if on {
                let n = d.visible.len() + d.inflight.len();
                d.visible.clear();
                d.inflight.clear();
                d.consumed += n as u64;
                d.wr_waker.take()
            } else {
                None
            }
        };
        if let Some(w) = w {
            defer_wake(w);
        }
    }
    /// shutdown(SHUT_WR) by `side`: the other side reads end-of-stream once it has drained what was
    /// sent, while `side` goes on reading - whatever the other side writes is still accepted
    pub fn shutdown_write(&self, side: usize) {
        count("fault_peer_half_close");
        next_seq();
        let (a, b) = {
            let mut d = self.dir(side);
            d.w_closed = true;
            d.wake_tap_waiters();
            (d.rd_waker.take(), d.wr_waker.take())
        };
        if let Some(w) = a {
            defer_wake(w);
        }
        defer_drop(b);
    }
    /// has `side` closed or shut down its writing direction?
    pub fn write_closed(&self, side: usize) -> bool {
        self.dir(side).w_closed
    }
    /// Abortive close of the whole connection: both directions error with ConnectionReset,
    /// undelivered bytes are discarded.
    pub fn reset(&self) {
        count("fault_reset");
        for d in 0..2 {
            let (a, b) = {
                let mut dir = self.dir(d);
                dir.reset = true;
                dir.inflight.clear();
                dir.visible.clear();
                dir.wake_tap_waiters();
                (dir.rd_waker.take(), dir.wr_waker.take())
            };
            if let Some(w) = a {
                defer_wake(w);
            }
            if let Some(w) = b {
                defer_wake(w);
            }
        }
    }
    /// after an injected error has been reported once, the connection stays broken: further
    /// reads and writes fail with ConnectionReset, undelivered bytes are discarded
    fn break_after_error(&self) {
        for d in 0..2 {
            let (a, b) = {
                let mut dir = self.dir(d);
                dir.reset = true;
                dir.inflight.clear();
                dir.visible.clear();
                dir.wake_tap_waiters();
                (dir.rd_waker.take(), dir.wr_waker.take())
            };
            if let Some(w) = a {
                defer_wake(w);
            }
            if let Some(w) = b {
                defer_wake(w);
            }
        }
    }
    /// next read by the reader of bytes written by `from_side` fails with `kind`; from then on
    /// the connection is broken in both directions
    pub fn inject_read_error(&self, from_side: usize, kind: io::ErrorKind) {
        count("fault_read_error");
        let w = {
            let mut d = self.dir(from_side);
            d.rd_err = Some(kind);
            d.rd_waker.take()
        };
        if let Some(w) = w {
            defer_wake(w);
        }
    }
    /// next write by `from_side` fails once with `kind`
    pub fn inject_write_error(&self, from_side: usize, kind: io::ErrorKind) {
        count("fault_write_error");
        let w = {
            let mut d = self.dir(from_side);
            d.wr_err = Some(kind);
            d.wr_waker.take()
        };
        if let Some(w) = w {
            defer_wake(w);
        }
    }
    /// fire (without consuming) the registered reader waker for bytes written by `from_side`
    pub fn spurious_read_wake(&self, from_side: usize) -> bool {
        let w = self.dir(from_side).rd_waker.clone();
        match w {
            Some(w) => {
                count("fault_spurious_wake");
                defer_wake(w);
                true
            }
            None => false,
        }
    }
    /// fire a waker that was registered earlier and has since been replaced
    pub fn stale_read_wake(&self, from_side: usize) -> bool {
        let w = self.dir(from_side).stale.pop();
        match w {
            Some(w) => {
                count("fault_stale_wake");
                defer_wake(w);
                true
            }
            None => false,
        }
    }
    /// (read error pending, write error pending) among the one-shot errors injected on the
    /// direction written by `from_side`
    pub fn pending_faults(&self, from_side: usize) -> (bool, bool) {
        let d = self.dir(from_side);
        (d.rd_err.is_some(), d.wr_err.is_some())
    }
    fn close_side(&self, side: usize) {
        let seq = next_seq();
        {
            let mut s = self.sides.lock().unwrap();
            if s[side].closed.is_some() {
                return;
            }
            s[side].closed = Some(seq);
        }
        // my outbound direction: writer closed -> peer reads EOF after draining
        let (a, b) = {
            let mut d = self.dir(side);
            d.w_closed = true;
            d.wake_tap_waiters();
            (d.rd_waker.take(), d.wr_waker.take())
        };
        if let Some(w) = a {
            defer_wake(w);
        }
        defer_drop(b);
        // my inbound direction: reader closed -> peer's writes fail
        let (a, b) = {
            let mut d = self.dir(1 - side);
            d.r_closed = true;
            let n = d.visible.len() + d.inflight.len();
            d.visible.clear();
            d.inflight.clear();
            d.consumed += n as u64;
            (d.wr_waker.take(), d.rd_waker.take())
        };
        if let Some(w) = a {
            defer_wake(w);
        }
        defer_drop(b);
    }
    fn clear_wakers(&self) {
        for d in 0..2 {
            let mut dir = self.dir(d);
            defer_drop(dir.rd_waker.take());
            defer_drop(dir.wr_waker.take());
            for w in dir.stale.drain(..) {
                defer_drop(Some(w));
            }
            for w in dir.tap_waiters.drain(..) {
                defer_drop(Some(w));
            }
        }
    }
}

fn chunk(c: Chunk, maxn: usize) -> usize {
    if maxn <= 1 {
        return maxn;
    }
    match c {
        Chunk::Whole => maxn,
        Chunk::One => 1,
        Chunk::Max(n) => maxn.min(n.max(1)),
        Chunk::Random => {
            let d = rt().tapes.borrow_mut()[Stream::Io as usize].draw(maxn as u64) as usize;
            maxn - d
        }
    }
}

fn maybe_yield(pm: u16, cx: &mut Context<'_>) -> bool {
    if pm == 0 {
        return false;
    }
    let y = rt().tapes.borrow_mut()[Stream::Io as usize].draw_rare(2, pm as u64, 1000);
    if y != 0 {
        count("io_coop_yield");
        defer_wake(cx.waker().clone());
        true
    } else {
        false
    }
}

/// marker payload of the unwind that ends a spinning poll
pub struct CoopSpin;
pub const COOP_SPIN_LIMIT: u32 = 20_000;

/// The transport's cooperative budget (Policy::coop). Returns true when the operation must be
/// refused (the caller returns Pending).
fn coop_gate(cx: &mut Context<'_>) -> bool {
    let rt = rt();
    let Some((budget, immediate)) = rt.policy.get().coop else { return false };
    if rt.coop_used.get() < budget {
        return false;
    }
    count("fault_coop_budget_exhausted");
    if crate::live_trace() {
        eprintln!("    coop budget {budget} exhausted (used {}, immediate {immediate})", rt.coop_used.get());
    }
    let n = rt.coop_refused.get() + 1;
    rt.coop_refused.set(n);
    if n >= COOP_SPIN_LIMIT {
        // 20 000 refusals within one task poll: the code under test is looping on a transport
        // that keeps telling it to yield. Unwind the poll so that the run can be judged.
        rt.spin_pending.set(true);
        std::panic::resume_unwind(Box::new(CoopSpin));
    }
    if immediate {
        cx.waker().wake_by_ref();
    } else {
        defer_wake(cx.waker().clone());
    }
    true
}
fn coop_consume() {
    let rt = rt();
    if rt.policy.get().coop.is_some() {
        rt.coop_used.set(rt.coop_used.get() + 1);
    }
}

/// scheduler event: make in-flight bytes visible to the reader
pub(crate) fn deliver(rt: &Rt, conn: usize, d: u8) {
    let c = rt.net.borrow().conns.get(conn).cloned();
    let Some(c) = c else { return };
    let w = {
        let mut dir = c.dir(d as usize);
        dir.deliver_queued = false;
        let n = chunk_deliver(rt, dir.deliver_chunk, dir.inflight.len());
        for _ in 0..n {
            let b = dir.inflight.pop_front().unwrap();
            dir.visible.push_back(b);
        }
        if !dir.inflight.is_empty() {
            dir.deliver_queued = true;
            rt.runq.lock().unwrap().push_back(Choice::Deliver(conn, d));
        }
        if dir.auto_drain {
            let k = dir.visible.len();
            dir.visible.clear();
            dir.consumed += k as u64;
            dir.wr_waker.take()
        } else {
            dir.rd_waker.take()
        }
    };
    if let Some(w) = w {
        defer_wake(w);
    }
}
fn chunk_deliver(rt: &Rt, c: Chunk, maxn: usize) -> usize {
    if maxn <= 1 {
        return maxn;
    }
    match c {
        Chunk::Whole => maxn,
        Chunk::One => 1,
        Chunk::Max(n) => maxn.min(n.max(1)),
        Chunk::Random => {
            let d = rt.tapes.borrow_mut()[Stream::Io as usize].draw(maxn as u64) as usize;
            maxn - d
        }
    }
}

pub(crate) fn spurious_wake(rt: &Rt) {
    // pick a connection direction with a registered reader waker
    let conns: Vec<Arc<Conn>> = rt.net.borrow().conns.clone();
    let mut cands = Vec::new();
    for c in &conns {
        for d in 0..2 {
            let dir = c.dir(d);
            if dir.rd_waker.is_some() || !dir.stale.is_empty() {
                cands.push((c.clone(), d));
            }
        }
    }
    if cands.is_empty() {
        return;
    }
    let k = rt.tapes.borrow_mut()[Stream::Sched as usize].draw(cands.len() as u64) as usize;
    let (c, d) = &cands[k];
    if !c.stale_read_wake(*d) {
        c.spurious_read_wake(*d);
    }
}

/// wait until `from_side` has written at least `n` bytes; false if that direction ended first
pub async fn wait_tap_len(conn: &Arc<Conn>, from_side: usize, n: usize) -> bool {
    futures::future::poll_fn(|cx| {
        let mut d = conn.dir(from_side);
        if d.tap.len() >= n {
            return Poll::Ready(true);
        }
        if d.w_closed || d.reset {
            return Poll::Ready(false);
        }
        d.tap_waiters.push(cx.waker().clone());
        Poll::Pending
    })
    .await
}

struct Endpoint {
    conn: Arc<Conn>,
    side: usize,
}
impl Drop for Endpoint {
    fn drop(&mut self) {
        self.conn.close_side(self.side);
    }
}

fn do_read(conn: &Conn, side: usize, cx: &mut Context<'_>, out: &mut [u8]) -> Poll<io::Result<usize>> {
    let r = do_read_inner(conn, side, cx, out);
    if r.is_ready() && !conn.io.lock().unwrap()[side].raw {
        coop_consume();
    }
    if let Poll::Ready(Ok(n)) = &r {
        if *n > 0 {
            crate::IO_PROGRESS.with(|p| p.set(p.get() + *n as u64));
        }
    }
    if crate::live_trace() {
        eprintln!("    read  conn {} side {} -> {:?}", conn.id, side, r);
    }
    r
}
fn do_read_inner(conn: &Conn, side: usize, cx: &mut Context<'_>, out: &mut [u8]) -> Poll<io::Result<usize>> {
    let io = conn.io.lock().unwrap()[side];
    if !io.raw && coop_gate(cx) {
        return Poll::Pending;
    }
    if !io.raw && maybe_yield(io.yield_pm, cx) {
        return Poll::Pending;
    }
    let mut dir = conn.dir(1 - side);
    dir.read_calls += 1;
    if let Some(k) = dir.rd_err.take() {
        dir.err_delivered = Some(next_seq());
        drop(dir);
        // a real connection that reported an error stays broken, in both directions
        conn.break_after_error();
        return Poll::Ready(Err(k.into()));
    }
    if dir.reset {
        dir.err_delivered.get_or_insert_with(next_seq);
        return Poll::Ready(Err(io::ErrorKind::ConnectionReset.into()));
    }
    if out.is_empty() {
        return Poll::Ready(Ok(0));
    }
    if dir.visible.is_empty() {
        if dir.w_closed && dir.inflight.is_empty() {
            dir.eof_delivered.get_or_insert_with(next_seq);
            return Poll::Ready(Ok(0));
        }
        let old = dir.rd_waker.replace(cx.waker().clone());
        if let Some(o) = old {
            if dir.stale.len() < 2 {
                dir.stale.push(o);
            } else {
                defer_drop(Some(o));
            }
        }
        return Poll::Pending;
    }
    let maxn = out.len().min(dir.visible.len());
    let n = if io.raw { maxn } else { chunk(io.read_chunk, maxn) };
    for o in out.iter_mut().take(n) {
        *o = dir.visible.pop_front().unwrap();
    }
    dir.consumed += n as u64;
    let w = dir.wr_waker.take();
    drop(dir);
    if let Some(w) = w {
        defer_wake(w);
    }
    next_seq();
    Poll::Ready(Ok(n))
}

fn do_write(conn: &Conn, side: usize, cx: &mut Context<'_>, data: &[u8]) -> Poll<io::Result<usize>> {
    let r = do_write_inner(conn, side, cx, data);
    if r.is_ready() && !conn.io.lock().unwrap()[side].raw {
        coop_consume();
    }
    if let Poll::Ready(Ok(n)) = &r {
        if *n > 0 {
            crate::IO_PROGRESS.with(|p| p.set(p.get() + *n as u64));
        }
    }
    if crate::live_trace() {
        eprintln!("    write conn {} side {} {}B -> {:?}", conn.id, side, data.len(), r);
    }
    r
}
fn do_write_inner(conn: &Conn, side: usize, cx: &mut Context<'_>, data: &[u8]) -> Poll<io::Result<usize>> {
    let io = conn.io.lock().unwrap()[side];
    // (a side marked as "accepts every write at once" - wyield_pm 0 - is exempt, like from the
    // probabilistic write yields: PUB flushes with a no-op waker and would legitimately keep a tail)
    if !io.raw && io.wyield_pm != 0 && coop_gate(cx) {
        conn.dir(side).write_pendings += 1;
        return Poll::Pending;
    }
    if !io.raw && maybe_yield(io.wyield_pm, cx) {
        conn.dir(side).write_pendings += 1;
        return Poll::Pending;
    }
    let mut dir = conn.dir(side);
    dir.write_calls += 1;
    if let Some(k) = dir.wr_err.take() {
        drop(dir);
        conn.break_after_error();
        return Poll::Ready(Err(k.into()));
    }
    if dir.reset {
        return Poll::Ready(Err(io::ErrorKind::ConnectionReset.into()));
    }
    if dir.r_closed {
        return Poll::Ready(Err(io::ErrorKind::BrokenPipe.into()));
    }
    if data.is_empty() {
        return Poll::Ready(Ok(0));
    }
    // a scripted (raw) peer's writes are never held back: its own blocking is invisible to the
    // library and would only dead-lock harness tasks that play both roles
    let room = if io.raw { usize::MAX } else if dir.stall { 0 } else { dir.cap.saturating_sub(dir.buffered()) };
    if room == 0 {
        dir.write_pendings += 1;
        let old = dir.wr_waker.replace(cx.waker().clone());
        drop(dir);
        defer_drop(old);
        return Poll::Pending;
    }
    let maxn = room.min(data.len());
    let n = if io.raw { maxn } else { chunk(io.write_chunk, maxn) };
    let seq = next_seq();
    dir.tap_total += n as u64;
    if dir.record_tap {
        dir.tap.extend_from_slice(&data[..n]);
        let tl = dir.tap.len();
        dir.stamps.push((tl, seq));
    }
    dir.wake_tap_waiters();
    let w;
    if dir.auto_drain && !dir.latency {
        dir.consumed += n as u64;
        w = None;
    } else if dir.latency {
        dir.inflight.extend(&data[..n]);
        if !dir.deliver_queued {
            dir.deliver_queued = true;
            if let Some(rt) = try_rt() {
                rt.runq.lock().unwrap().push_back(Choice::Deliver(conn.id, side as u8));
            }
        }
        w = None;
    } else {
        dir.visible.extend(&data[..n]);
        w = dir.rd_waker.take();
    }
    drop(dir);
    if let Some(w) = w {
        defer_wake(w);
    }
    Poll::Ready(Ok(n))
}

/// A whole stream endpoint (both directions).
pub struct SimStream {
    ep: Arc<Endpoint>,
    local: StreamAddr,
    peer: StreamAddr,
}

#[derive(Clone, Debug)]
pub enum StreamAddr {
    Tcp(SocketAddr),
    Unix(Option<PathBuf>),
}

impl SimStream {
    pub fn conn(&self) -> Arc<Conn> {
        self.ep.conn.clone()
    }
    pub fn side(&self) -> usize {
        self.ep.side
    }
    pub fn set_nodelay(&self, _on: bool) -> io::Result<()> {
        let fail = {
            let rt = rt();
            let mut net = rt.net.borrow_mut();
            if net.fail_nodelay > 0 {
                net.fail_nodelay -= 1;
                true
            } else {
                false
            }
        };
        if fail {
            count("fault_nodelay_error");
            return Err(io::Error::new(io::ErrorKind::InvalidInput, "sim: set_nodelay failed"));
        }
        Ok(())
    }

    // ---- raw (harness-side) helpers -------------------------------------------------------
    /// write everything, waiting for capacity
    pub async fn write_all(&mut self, data: &[u8]) -> io::Result<()> {
        let mut off = 0;
        while off < data.len() {
            let n = futures::future::poll_fn(|cx| do_write(&self.ep.conn, self.ep.side, cx, &data[off..])).await?;
            off += n;
        }
        Ok(())
    }
    /// wait for at least one byte (or EOF = empty vec)
    pub async fn read_some(&mut self, max: usize) -> io::Result<Vec<u8>> {
        let mut buf = vec![0u8; max];
        let n = futures::future::poll_fn(|cx| do_read(&self.ep.conn, self.ep.side, cx, &mut buf)).await?;
        buf.truncate(n);
        Ok(buf)
    }
    pub async fn read_exact_n(&mut self, n: usize) -> io::Result<Vec<u8>> {
        let mut out = Vec::with_capacity(n);
        while out.len() < n {
            let v = self.read_some(n - out.len()).await?;
            if v.is_empty() {
                return Err(io::ErrorKind::UnexpectedEof.into());
            }
            out.extend(v);
        }
        Ok(out)
    }
    /// everything the other side has written so far
    pub fn inbound_tap(&self) -> Vec<u8> {
        self.ep.conn.tap_from(1 - self.ep.side)
    }
    /// wait until the other side has written at least `n` bytes in total; false if its
    /// direction ended (closed / reset) first
    pub async fn wait_inbound_len(&self, n: usize) -> bool {
        wait_tap_len(&self.ep.conn, 1 - self.ep.side, n).await
    }
}

impl futures::AsyncRead for SimStream {
    fn poll_read(self: Pin<&mut Self>, cx: &mut Context<'_>, out: &mut [u8]) -> Poll<io::Result<usize>> {
        do_read(&self.ep.conn, self.ep.side, cx, out)
    }
}
impl futures::AsyncWrite for SimStream {
    fn poll_write(self: Pin<&mut Self>, cx: &mut Context<'_>, data: &[u8]) -> Poll<io::Result<usize>> {
        do_write(&self.ep.conn, self.ep.side, cx, data)
    }
    fn poll_flush(self: Pin<&mut Self>, _: &mut Context<'_>) -> Poll<io::Result<()>> {
        Poll::Ready(Ok(()))
    }
    fn poll_close(self: Pin<&mut Self>, _: &mut Context<'_>) -> Poll<io::Result<()>> {
        Poll::Ready(Ok(()))
    }
}

pub struct ReadHalf {
    ep: Arc<Endpoint>,
}
pub struct WriteHalf {
    ep: Arc<Endpoint>,
}
impl Drop for ReadHalf {
    fn drop(&mut self) {
        let s = next_seq();
        self.ep.conn.sides.lock().unwrap()[self.ep.side].read_half_dropped = Some(s);
    }
}
impl Drop for WriteHalf {
    fn drop(&mut self) {
        let s = next_seq();
        self.ep.conn.sides.lock().unwrap()[self.ep.side].write_half_dropped = Some(s);
    }
}
impl futures::AsyncRead for ReadHalf {
    fn poll_read(self: Pin<&mut Self>, cx: &mut Context<'_>, out: &mut [u8]) -> Poll<io::Result<usize>> {
        do_read(&self.ep.conn, self.ep.side, cx, out)
    }
}
impl futures::AsyncWrite for WriteHalf {
    fn poll_write(self: Pin<&mut Self>, cx: &mut Context<'_>, data: &[u8]) -> Poll<io::Result<usize>> {
        do_write(&self.ep.conn, self.ep.side, cx, data)
    }
    fn poll_flush(self: Pin<&mut Self>, cx: &mut Context<'_>) -> Poll<io::Result<()>> {
        // a flush is one more place where a real transport may answer Pending: a suspension point
        // between "all bytes accepted" and "send returns"
        let io = self.ep.conn.io.lock().unwrap()[self.ep.side];
        if !io.raw && maybe_yield(io.wyield_pm / 2, cx) {
            self.ep.conn.dir(self.ep.side).write_pendings += 1;
            return Poll::Pending;
        }
        Poll::Ready(Ok(()))
    }
    fn poll_close(self: Pin<&mut Self>, _: &mut Context<'_>) -> Poll<io::Result<()>> {
        Poll::Ready(Ok(()))
    }
}

/// The `make_framed` seam: split into two independently owned halves. The endpoint closes when
/// both are gone (the semantics of `tokio::io::split` and of `futures::AsyncReadExt::split`).
pub trait IntoHalves {
    fn into_halves(self) -> (ReadHalf, WriteHalf);
}
impl IntoHalves for SimStream {
    fn into_halves(self) -> (ReadHalf, WriteHalf) {
        (ReadHalf { ep: self.ep.clone() }, WriteHalf { ep: self.ep })
    }
}

// ------------------------------------------------------------------------------------------------
// namespace
// ------------------------------------------------------------------------------------------------
struct ListenerState {
    backlog: VecDeque<SimStream>,
    waker: Option<Waker>,
    accept_errors: VecDeque<io::ErrorKind>,
    accepted: u64,
}

pub struct Net {
    listeners: BTreeMap<String, Arc<Mutex<ListenerState>>>,
    /// socket files: path -> inode of the listening socket that created it. A path can be
    /// unlinked while its listener lives on (unreachable), and a stale file can outlive its
    /// listener (connect is refused) -- as on Unix
    pub files: BTreeMap<PathBuf, u64>,
    next_inode: u64,
    next_port: u16,
    next_client_port: u16,
    pub conns: Vec<Arc<Conn>>,
    pub profile: NetProfile,
    /// connects to these keys are refused this many more times
    pub refuse: BTreeMap<String, u32>,
    pub fail_remove_file: u32,
    /// the error kind an injected unlink failure carries (a vanished file, a refused or failed call)
    pub fail_remove_kind: io::ErrorKind,
    pub fail_nodelay: u32,
    pub unlink_calls: u64,
}

impl Net {
    pub fn new() -> Net {
        Net {
            listeners: BTreeMap::new(),
            files: BTreeMap::new(),
            next_inode: 1,
            next_port: 40000,
            next_client_port: 50000,
            conns: Vec::new(),
            profile: NetProfile::default(),
            refuse: BTreeMap::new(),
            fail_remove_file: 0,
            fail_remove_kind: io::ErrorKind::PermissionDenied,
            fail_nodelay: 0,
            unlink_calls: 0,
        }
    }
    pub fn listening(&self, key: &str) -> bool {
        // "ipc:<path>" names a path: it is listened on iff the path exists and the socket it
        // points to is still a listener
        if let Some(p) = key.strip_prefix("ipc:") {
            return match self.files.get(Path::new(p)) {
                Some(ino) => self.listeners.contains_key(&format!("ipc#{ino}")),
                None => false,
            };
        }
        self.listeners.contains_key(key)
    }
    pub fn file_exists(&self, p: &Path) -> bool {
        self.files.contains_key(p)
    }
    pub fn listener_keys(&self) -> Vec<String> {
        self.listeners.keys().cloned().collect()
    }
    pub fn inject_accept_error(&self, key: &str, kind: io::ErrorKind) -> bool {
        // "ipc:<path>" names a path: the listener lives on the inode the path points to
        let resolved = match key.strip_prefix("ipc:") {
            Some(p) => match self.files.get(Path::new(p)) {
                Some(ino) => format!("ipc#{ino}"),
                None => return false,
            },
            None => key.to_string(),
        };
        if let Some(l) = self.listeners.get(&resolved) {
            let w = {
                let mut s = l.lock().unwrap();
                s.accept_errors.push_back(kind);
                s.waker.take()
            };
            if let Some(w) = w {
                defer_wake(w);
            }
            true
        } else {
            false
        }
    }
    pub(crate) fn teardown(&self) {
        for l in self.listeners.values() {
            let (w, b) = {
                let mut s = l.lock().unwrap();
                (s.waker.take(), std::mem::take(&mut s.backlog))
            };
            defer_drop(w);
            drop(b);
        }
        for c in &self.conns {
            c.clear_wakers();
        }
    }
}

fn resolve(host: &str) -> io::Result<IpAddr> {
    match host {
        "localhost" => Ok("127.0.0.1".parse().unwrap()),
        h => h.parse().map_err(|_| io::Error::new(io::ErrorKind::Other, "sim dns: failed to lookup address information")),
    }
}
pub fn tcp_key(ip: IpAddr, port: u16) -> String {
    match ip {
        IpAddr::V4(a) => format!("tcp:{a}:{port}"),
        IpAddr::V6(a) => format!("tcp:[{a}]:{port}"),
    }
}
pub fn ipc_key(p: &Path) -> String {
    format!("ipc:{}", p.display())
}

fn new_conn(label: &str, local: StreamAddr, peer: StreamAddr, raw_connector: bool) -> (SimStream, SimStream) {
    let rt = rt();
    let mut net = rt.net.borrow_mut();
    let p = net.profile;
    let id = net.conns.len();
    let lib_io = SideIo { raw: false, read_chunk: p.read_chunk, write_chunk: p.write_chunk, yield_pm: p.yield_pm, wyield_pm: p.yield_pm };
    let raw_io = SideIo { raw: true, read_chunk: Chunk::Whole, write_chunk: Chunk::Whole, yield_pm: 0, wyield_pm: 0 };
    let conn = Arc::new(Conn {
        id,
        label: label.to_string(),
        dirs: [Mutex::new(Dir::new(&p)), Mutex::new(Dir::new(&p))],
        sides: Mutex::new([SideState::default(); 2]),
        io: Mutex::new([if raw_connector { raw_io } else { lib_io }, lib_io]),
    });
    net.conns.push(conn.clone());
    let a = SimStream { ep: Arc::new(Endpoint { conn: conn.clone(), side: 0 }), local: local.clone(), peer: peer.clone() };
    let b = SimStream { ep: Arc::new(Endpoint { conn, side: 1 }), local: peer, peer: local };
    (a, b)
}

fn find_tcp_listener(net: &Net, ip: IpAddr, port: u16) -> Option<(String, Arc<Mutex<ListenerState>>)> {
    let k = tcp_key(ip, port);
    if let Some(l) = net.listeners.get(&k) {
        return Some((k, l.clone()));
    }
    // wildcard listener of the same family
    let wild: IpAddr = match ip {
        IpAddr::V4(_) => "0.0.0.0".parse().unwrap(),
        IpAddr::V6(_) => "::".parse().unwrap(),
    };
    let k = tcp_key(wild, port);
    net.listeners.get(&k).map(|l| (k, l.clone()))
}

fn do_connect(key_lookup: impl FnOnce(&Net) -> Option<(String, Arc<Mutex<ListenerState>>)>, refuse_key: String, missing: io::ErrorKind, mk_addrs: impl FnOnce(&mut Net) -> (StreamAddr, StreamAddr), raw: bool) -> io::Result<SimStream> {
    let rt = rt();
    let (found, addrs) = {
        let mut net = rt.net.borrow_mut();
        if let Some(n) = net.refuse.get_mut(&refuse_key) {
            if *n > 0 {
                *n -= 1;
                drop(net);
                count("fault_connect_refused");
                return Err(io::ErrorKind::ConnectionRefused.into());
            }
        }
        let f = key_lookup(&net);
        let a = mk_addrs(&mut net);
        (f, a)
    };
    let Some((key, l)) = found else { return Err(missing.into()) };
    let (a, b) = new_conn(&key, addrs.0, addrs.1, raw);
    let w = {
        let mut s = l.lock().unwrap();
        s.backlog.push_back(b);
        s.waker.take()
    };
    if let Some(w) = w {
        defer_wake(w);
    }
    next_seq();
    Ok(a)
}

pub type TcpStream = SimStream;

impl SimStream {
    /// library-facing connect (async-std shape)
    pub async fn connect(addr: (&str, u16)) -> io::Result<SimStream> {
        Self::connect_opts(addr.0, addr.1, false)
    }
    /// harness-facing connect: the returned endpoint performs exact (un-chunked) I/O
    pub fn connect_raw(host: &str, port: u16) -> io::Result<SimStream> {
        Self::connect_opts(host, port, true)
    }
    fn connect_opts(host: &str, port: u16, raw: bool) -> io::Result<SimStream> {
        let ip = resolve(host)?;
        do_connect(
            |net| find_tcp_listener(net, ip, port),
            tcp_key(ip, port),
            io::ErrorKind::ConnectionRefused,
            |net| {
                net.next_client_port = if net.next_client_port == u16::MAX { 50000 } else { net.next_client_port + 1 };
                let lip: IpAddr = match ip {
                    IpAddr::V4(_) => "127.0.0.1".parse().unwrap(),
                    IpAddr::V6(_) => "::1".parse().unwrap(),
                };
                (StreamAddr::Tcp(SocketAddr::new(lip, net.next_client_port)), StreamAddr::Tcp(SocketAddr::new(ip, port)))
            },
            raw,
        )
    }
    pub fn peer_addr(&self) -> io::Result<SocketAddr> {
        // as getpeername(2): ENOTCONN once the connection has been reset - also for a connection
        // that accept() still hands out although its peer aborted it while it sat in the backlog
        if self.conn().dir(0).reset {
            count("fault_peer_addr_of_reset_connection");
            return Err(io::ErrorKind::NotConnected.into());
        }
        match &self.peer {
            StreamAddr::Tcp(a) => Ok(*a),
            _ => Err(io::ErrorKind::InvalidInput.into()),
        }
    }
    pub fn local_addr(&self) -> io::Result<SocketAddr> {
        match &self.local {
            StreamAddr::Tcp(a) => Ok(*a),
            _ => Err(io::ErrorKind::InvalidInput.into()),
        }
    }
}

pub struct TcpListener {
    key: String,
    addr: SocketAddr,
    st: Arc<Mutex<ListenerState>>,
}

fn bind_key(key: String) -> io::Result<Arc<Mutex<ListenerState>>> {
    let rt = rt();
    let mut net = rt.net.borrow_mut();
    if net.listeners.contains_key(&key) {
        return Err(io::ErrorKind::AddrInUse.into());
    }
    let st = Arc::new(Mutex::new(ListenerState { backlog: VecDeque::new(), waker: None, accept_errors: VecDeque::new(), accepted: 0 }));
    net.listeners.insert(key, st.clone());
    Ok(st)
}

fn unbind_key(key: &str, st: &Arc<Mutex<ListenerState>>) {
    let (w, b) = {
        let mut s = st.lock().unwrap();
        (s.waker.take(), std::mem::take(&mut s.backlog))
    };
    defer_drop(w);
    drop(b);
    if let Some(rt) = try_rt() {
        if let Ok(mut net) = rt.net.try_borrow_mut() {
            if let Some(cur) = net.listeners.get(key) {
                if Arc::ptr_eq(cur, st) {
                    net.listeners.remove(key);
                }
            }
        }
    }
    next_seq();
}

async fn accept_on(st: &Arc<Mutex<ListenerState>>) -> io::Result<SimStream> {
    futures::future::poll_fn(|cx| {
        let mut s = st.lock().unwrap();
        if let Some(k) = s.accept_errors.pop_front() {
            drop(s);
            count("fault_accept_error");
            return Poll::Ready(Err(io::Error::new(k, "sim: accept failed")));
        }
        if let Some(stream) = s.backlog.pop_front() {
            s.accepted += 1;
            drop(s);
            next_seq();
            return Poll::Ready(Ok(stream));
        }
        let old = s.waker.replace(cx.waker().clone());
        drop(s);
        defer_drop(old);
        Poll::Pending
    })
    .await
}

impl TcpListener {
    pub async fn bind(addr: (&str, u16)) -> io::Result<TcpListener> {
        Self::bind_now(addr.0, addr.1)
    }
    pub fn bind_now(host: &str, port: u16) -> io::Result<TcpListener> {
        let ip = resolve(host)?;
        let port = if port == 0 {
            let rt = rt();
            let mut net = rt.net.borrow_mut();
            loop {
                net.next_port = if net.next_port >= 49999 { 40000 } else { net.next_port + 1 };
                let p = net.next_port;
                if !net.listeners.contains_key(&tcp_key(ip, p)) {
                    break p;
                }
            }
        } else {
            port
        };
        // wildcard and specific address of the same family conflict on the same port
        {
            let rt = rt();
            let net = rt.net.borrow();
            if find_tcp_listener(&net, ip, port).is_some() {
                return Err(io::ErrorKind::AddrInUse.into());
            }
            if ip.is_unspecified() {
                let pre = match ip {
                    IpAddr::V4(_) => "tcp:",
                    IpAddr::V6(_) => "tcp:[",
                };
                let suf = format!(":{port}");
                let v6 = ip.is_ipv6();
                if net.listeners.keys().any(|k| k.starts_with(pre) && k.ends_with(&suf) && (k.starts_with("tcp:[") == v6)) {
                    return Err(io::ErrorKind::AddrInUse.into());
                }
            }
        }
        let key = tcp_key(ip, port);
        let st = bind_key(key.clone())?;
        next_seq();
        Ok(TcpListener { key, addr: SocketAddr::new(ip, port), st })
    }
    pub fn local_addr(&self) -> io::Result<SocketAddr> {
        Ok(self.addr)
    }
    pub async fn accept(&self) -> io::Result<(TcpStream, SocketAddr)> {
        let s = accept_on(&self.st).await?;
        // accept(2) reports the address the kernel recorded at connection time, also for a
        // connection that has been reset since; only a later getpeername(2) fails
        let a = match &s.peer {
            StreamAddr::Tcp(a) => *a,
            _ => return Err(io::ErrorKind::InvalidInput.into()),
        };
        Ok((s, a))
    }
    pub fn key(&self) -> &str {
        &self.key
    }
}
impl Drop for TcpListener {
    fn drop(&mut self) {
        unbind_key(&self.key, &self.st);
    }
}

// ---- unix ---------------------------------------------------------------------------------------
pub struct UnixStream(SimStream);
pub struct UnixAddr(Option<PathBuf>);
impl UnixAddr {
    pub fn as_pathname(&self) -> Option<&Path> {
        self.0.as_deref()
    }
}
impl UnixStream {
    pub async fn connect(p: &Path) -> io::Result<UnixStream> {
        Self::connect_opts(p, false).map(UnixStream)
    }
    pub fn connect_raw(p: &Path) -> io::Result<SimStream> {
        Self::connect_opts(p, true)
    }
    fn connect_opts(p: &Path, raw: bool) -> io::Result<SimStream> {
        let ino = rt().net.borrow().files.get(p).copied();
        let Some(ino) = ino else {
            return Err(io::ErrorKind::NotFound.into());
        };
        let key = format!("ipc#{ino}");
        let pb = p.to_path_buf();
        do_connect(|net| net.listeners.get(&key).map(|l| (key.clone(), l.clone())), key.clone(), io::ErrorKind::ConnectionRefused, |_| (StreamAddr::Unix(None), StreamAddr::Unix(Some(pb))), raw)
    }
    pub fn peer_addr(&self) -> io::Result<UnixAddr> {
        match &self.0.peer {
            StreamAddr::Unix(p) => Ok(UnixAddr(p.clone())),
            _ => Err(io::ErrorKind::InvalidInput.into()),
        }
    }
    pub fn inner(&self) -> &SimStream {
        &self.0
    }
    pub fn into_inner(self) -> SimStream {
        self.0
    }
}
impl IntoHalves for UnixStream {
    fn into_halves(self) -> (ReadHalf, WriteHalf) {
        self.0.into_halves()
    }
}
pub struct UnixListener {
    key: String,
    path: PathBuf,
    st: Arc<Mutex<ListenerState>>,
}
impl UnixListener {
    pub async fn bind(p: &Path) -> io::Result<UnixListener> {
        Self::bind_now(p)
    }
    pub fn bind_now(p: &Path) -> io::Result<UnixListener> {
        {
            let rt = rt();
            let mut net = rt.net.borrow_mut();
            if net.files.contains_key(p) {
                return Err(io::ErrorKind::AddrInUse.into());
            }
        }
        let ino = {
            let rt = rt();
            let mut net = rt.net.borrow_mut();
            let ino = net.next_inode;
            net.next_inode += 1;
            net.files.insert(p.to_path_buf(), ino);
            ino
        };
        let key = format!("ipc#{ino}");
        let st = bind_key(key.clone())?;
        next_seq();
        Ok(UnixListener { key, path: p.to_path_buf(), st })
    }
    pub fn local_addr(&self) -> io::Result<UnixAddr> {
        Ok(UnixAddr(Some(self.path.clone())))
    }
    pub async fn accept(&self) -> io::Result<(UnixStream, UnixAddr)> {
        let s = accept_on(&self.st).await?;
        // the connecting side of a unix stream is unnamed
        Ok((UnixStream(s), UnixAddr(None)))
    }
}
impl Drop for UnixListener {
    fn drop(&mut self) {
        // as on Unix: the socket file is NOT removed when the listener goes away
        unbind_key(&self.key, &self.st);
    }
}

pub async fn remove_file(p: &Path) -> io::Result<()> {
    let rt = rt();
    let mut net = rt.net.borrow_mut();
    net.unlink_calls += 1;
    if net.fail_remove_file > 0 {
        net.fail_remove_file -= 1;
        let kind = net.fail_remove_kind;
        drop(net);
        count("fault_unlink_error");
        return Err(io::Error::new(kind, "sim: unlink failed"));
    }
    if net.files.remove(p).is_some() {
        Ok(())
    } else {
        Err(io::ErrorKind::NotFound.into())
    }
}
