//! OS entropy seam. The harness binary defines the C symbol `getrandom` and forwards to `fill`,
//! so std's `RandomState` keys, `uuid::Uuid::new_v4` and `rand::rng()` all draw from the run's
//! entropy stream. Each run executes on a fresh thread, so their thread-local caches are re-seeded.
use std::cell::Cell;

thread_local! {
    static STATE: Cell<u64> = const { Cell::new(0x1234_5678_9abc_def1) };
    static BYTES: Cell<u64> = const { Cell::new(0) };
}

pub fn seed(s: u64) {
    STATE.with(|e| e.set(s | 1));
    BYTES.with(|b| b.set(0));
}

pub fn fill(buf: &mut [u8]) {
    STATE.with(|e| {
        let mut x = e.get();
        for b in buf.iter_mut() {
            // splitmix-style step, one byte per step (speed is irrelevant here)
            x = x.wrapping_add(0x9E37_79B9_7F4A_7C15);
            let mut z = x;
            z = (z ^ (z >> 30)).wrapping_mul(0xBF58_476D_1CE4_E5B9);
            z = (z ^ (z >> 27)).wrapping_mul(0x94D0_49BB_1331_11EB);
            *b = ((z ^ (z >> 31)) >> 24) as u8;
        }
        e.set(x);
    });
    BYTES.with(|b| b.set(b.get() + buf.len() as u64));
}

pub fn bytes_served() -> u64 {
    BYTES.with(|b| b.get())
}
