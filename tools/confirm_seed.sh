#!/bin/bash
# usage: tools/confirm_seed.sh <PROP> <worktree with SEEDED/ and the change applied> [demo test name]
# 1. in the worktree: suite passes and demo fails WITH the change; demo passes WITHOUT it
# 2. applies the patch to /repo, runs the property's quick check, restores /repo
set -u
P=$1; WT=$2; DEMO=${3:-seeded_demo}
cd "$WT" || exit 2
echo "== with change: full suite (expect: only the demo fails)"
cargo test --workspace --no-fail-fast --offline > SEEDED/with_change.log 2>&1
grep -E "^test result|^test .* FAILED|^    [a-z_:]+$" SEEDED/with_change.log | sort | uniq -c | sort -rn | head -20
echo "== without change: demo (expect: pass)"
git apply -R SEEDED/patch.diff || { echo "cannot reverse patch"; exit 2; }
cargo test --offline --test "$DEMO" > SEEDED/without_change.log 2>&1 || cargo test --offline "$DEMO" > SEEDED/without_change.log 2>&1
grep -E "^test result|FAILED" SEEDED/without_change.log | head
git apply SEEDED/patch.diff
echo "== /verif check with the change applied to /repo"
git -C /repo apply "$WT/SEEDED/patch.diff" || { echo "patch does not apply to /repo"; exit 2; }
EVBAK=$(mktemp -d); cp -a /verif/evidence/. "$EVBAK"/
(cd /verif && ZSIM_WORKERS=${ZSIM_WORKERS:-8} ./check "$P" quick 2>&1 | grep -E "^violation|^VIOLATION|^C[0-9]+ quick|HARNESS" | cut -c1-400)
git -C /repo checkout -- .
cp -a "$EVBAK"/. /verif/evidence/; rm -rf "$EVBAK"
git -C /repo status --short | head -3
