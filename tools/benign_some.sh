#!/bin/bash
# usage: tools/benign_some.sh <patch> ...   - every quick check against each patch, on /repo (restored after each)
cd /verif
for p in "$@"; do
  out=$(tools/try_patch.sh "$PWD/$p" 2>&1)
  bad=$(echo "$out" | grep -E "^VIOLATION|HARNESS|BUILD FAILED|does not apply|rc=[12]" | cut -c1-220 | tr '\n' ';')
  n=$(echo "$out" | grep -c "rc=")
  echo "$p checks=$n alarms=[$bad]"
done
