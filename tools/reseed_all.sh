#!/bin/bash
# Re-run every stored seeded change against the current checks: apply, run the property's quick
# check, expect exit 1. Prints one line per change. Works on /repo itself (restored after each
# patch) or, with ZSIM_REPO / under `vp run --with-repo`, on a private copy of the repository.
R=${VP_RUN_REPO:-${ZSIM_REPO:-/repo}}
export ZSIM_REPO=$R
cd "$(dirname "$0")/.."
V=$PWD
for d in seeded/*/; do
  id=$(basename $d); P=$(jq -r .breaks_property $d/meta.json)
  if ! git -C "$R" apply --check "$V/$d/patch.diff" 2>/dev/null; then echo "$id $P DOES-NOT-APPLY"; continue; fi
  git -C "$R" apply "$V/$d/patch.diff"
  out=$(./check "$P" quick 2>&1); rc=$?
  echo "$id $P rc=$rc $(echo "$out" | grep -E 'quick:' | sed 's/.*wall, //')"
  git -C "$R" checkout -- . ; git -C "$R" clean -fdq src
done
