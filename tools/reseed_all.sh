#!/bin/bash
# Re-run every stored seeded change against the current checks: apply, run the property's quick
# check, expect exit 1. Prints one line per change.
cd /verif
for d in seeded/*/; do
  id=$(basename $d); P=$(jq -r .breaks_property $d/meta.json)
  if ! git -C /repo apply --check /verif/$d/patch.diff 2>/dev/null; then echo "$id $P DOES-NOT-APPLY"; continue; fi
  out=$(tools/try_patch.sh /verif/$d/patch.diff $P 2>&1 | head -1)
  echo "$id $out"
done
