#!/usr/bin/env python3
"""Regenerate the table of seeded changes in DESIGN.md (section 12) from seeded/*/meta.json."""
import json, glob, os, re
HERE = os.path.dirname(os.path.dirname(os.path.abspath(__file__)))
rows = []
for d in sorted(glob.glob(os.path.join(HERE, "seeded", "*"))):
    m = json.load(open(os.path.join(d, "meta.json")))
    rows.append((m["breaks_property"], m["id"], m["needs_to_manifest"], m["detected_by"]))
out = ["| prop | seeded change (`/verif/seeded/<id>/`) | what it needs in order to manifest | caught by |", "|------|------|------|------|"]
for p, i, n, c in rows:
    out.append(f"| {p} | `{i}` | {n} | {c} |")
table = "\n".join(out)
p = os.path.join(HERE, "DESIGN.md")
s = open(p).read()
intro = """Every change below was written by a fresh sub-agent that was given only the text of one property and
its own scratch git worktree of /repo (nothing from /verif), with the brief to break the property
while still compiling and passing the existing suite, in a way that needs something specific to
manifest, and to deliver a demonstration test that fails with the change and passes without it. I
confirmed each one myself in the scratch worktree (`tools/confirm_seed.sh`: suite passes and demo
fails with the change, demo passes without it), then applied the patch to /repo, ran the property's
quick check and restored /repo. `meta.json` in each directory records what was run.

"""
start = s.index("## 12. Seeded changes: which checks catch which")
end = s.index("---------------------------------------------------------------------------------------------------\n\n## Appendix A")
notes = open(os.path.join(HERE, "tools", "seed_notes.md")).read()
benign = os.path.join(HERE, "tools", "benign_notes.md")
if os.path.exists(benign):
    notes += "\n" + open(benign).read()
s = s[:start] + "## 12. Seeded changes: which checks catch which\n\n" + intro + table + "\n\n" + notes + "\n" + s[end:]
open(p, "w").write(s)
print(len(rows), "seeded changes")
