save_seed () 
{ 
    id=$1;
    wt=$2;
    prop=$3;
    needs="$4";
    caught="$5";
    d=seeded/$id;
    mkdir -p $d;
    cp $wt/SEEDED/patch.diff $d/;
    cp $wt/SEEDED/*.rs $d/ 2> /dev/null;
    cp $wt/SEEDED/NOTES.md $d/agent_notes.md 2> /dev/null;
    cp $wt/SEEDED/*.diff $d/ 2> /dev/null;
    python3 - "$id" "$prop" "$needs" "$caught" <<'EOF'
import json,sys
id,prop,needs,caught=sys.argv[1:5]
json.dump({"id":id,"breaks_property":prop,"needs_to_manifest":needs,"author":"independent sub-agent given only the property text and a scratch worktree","confirmed_by_me":{"suite_with_change":"passes (cargo test --workspace --no-fail-fast --offline in the scratch worktree)","demo_with_change":"fails","demo_without_change":"passes","command":"tools/confirm_seed.sh"},"detected_by":caught},open(f"/verif/seeded/{id}/meta.json","w"),indent=1)
EOF

}
