#!/bin/bash
export ZSIM_STRICT_DETERMINISM=1
# Determinism protocol (DESIGN 7.1): for every property, the first N cases of every stratum are
# executed twice in separate processes, once in forward and once in reverse order (so every case
# runs at a different position in its batch, after different predecessors); the sorted
# (stratum, index, fingerprint, violation keys) lines must be identical.
N=${1:-300}
Z=/verif/sim/target/debug/zsim
bad=0
for p in $($Z list | grep -oE '^C[0-9]+'); do
  $Z fingerprints $p $N fwd > /tmp/fp_$p.fwd &
  $Z fingerprints $p $N rev > /tmp/fp_$p.rev &
  wait
  if cmp -s /tmp/fp_$p.fwd /tmp/fp_$p.rev; then echo "$p: $(wc -l < /tmp/fp_$p.fwd) cases identical"; else echo "$p: MISMATCH"; diff /tmp/fp_$p.fwd /tmp/fp_$p.rev | head -5; bad=1; fi
  rm -f /tmp/fp_$p.fwd /tmp/fp_$p.rev
done
exit $bad
