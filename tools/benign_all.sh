#!/bin/bash
# Re-run every archived behaviour-preserving patch against every quick check, on a private copy of
# the repository (meant for `vp run --with-repo -- tools/benign_all.sh`): prints one line per patch.
R=${VP_RUN_REPO:-${ZSIM_REPO:?set ZSIM_REPO to a scratch worktree of /repo}}
export ZSIM_REPO=$R
cd "$(dirname "$0")/.."
for p in benign/*.diff; do
  if ! git -C "$R" apply --check "$PWD/$p" 2>/dev/null; then echo "$p DOES-NOT-APPLY"; continue; fi
  git -C "$R" apply "$PWD/$p"
  out=$(./check all quick 2>&1)
  bad=$(echo "$out" | grep -E "^VIOLATION|HARNESS" | cut -c1-200 | tr '\n' ';')
  n=$(echo "$out" | grep -c "quick: ")
  echo "$p checks=$n alarms=[$bad]"
  git -C "$R" checkout -- . ; git -C "$R" clean -fdq src
done
