#!/usr/bin/env python3
"""Regenerate /verif/MANIFEST.json from the table below (kept here so that the manifest stays
valid and consistent while checks are added)."""
import json, os, subprocess
HERE = os.path.dirname(os.path.dirname(os.path.abspath(__file__)))

# id -> (category, technique, level text, level note, design ref)
CLAIMED = {
 "C05": ("exploration", "deterministic simulation with fault injection: seeded search over schedules, read/write segmentations and connection faults; per-connection exactly-once/in-order oracle over wire taps vs recv history",
         "Whole library on a simulated runtime: a receiving socket of each fair-queue type with 1..4 scripted senders; every run draws its own scheduler policy, pipe capacities, chunking, yields, delivery delays, late joins, closes, mid-message cuts and resets. Oracle at quiescence: recv results attributed by tag equal, in order and frame by frame, the complete messages an independent RFC-23 decoder finds on each connection's tap. Sampling, not proof.",
         "Trusts the simulated transport to behave like an ordered reliable byte stream, the independent reference codec, and that task interleavings at await points plus reactor events at mutex boundaries cover the relevant schedules.", "5/C05, B1"),
 "C06": ("exploration", "deterministic simulation of the real fair queue with scripted streams: seeded search over interleavings of arrivals, wakes, inserts, closes and receiver polls, including events inside the window where poll_next holds no lock; lost-wake-up and bounded-overtaking oracles at quiescence",
         "L1: the private fair queue driven through the FairQueueProbe hook; foreign events land between polls, inside stream polls and at every lock/unlock of the queue's mutex. Oracles: at quiescence the receiver may not be parked un-woken while an inserted stream holds an item; with deep queues no ready peer waits for more than 2n+2 (+1 per injected spurious wake) foreign deliveries. L2: whole library, nobody parked in recv while a complete message is undelivered. Sampling, not proof.",
         "Trusts that every access to the queue's shared state goes through its parking_lot mutex (so lock boundaries are the only interleaving points), and the waker contract modelled by the scripted streams (fired at most once per registration).", "5/C06, 3.9, B2, B3"),
 "C07": ("exploration", "deterministic simulation: REQ and REP sockets against scripted peers and each other under seeded segmentation and scheduling; envelope algebra checked on wire taps and at the API",
         "REP fed requests with 0..3 routing frames, delimiter and 1..4 payload frames from the boundary grid (empty frames inside), plus single-frame and delimiter-last forms; REQ against a scripted REP; REQ against REP. Oracles: REQ wire = delimiter + payload, REQ recv = reply minus the delimiter, REP recv = frames after the first delimiter, REP wire = saved prefix + delimiter + reply, never a zero-frame message.",
         "Payload space sampled over a length grid; requests with no delimiter at all are outside the statement.", "5/C07"),
 "C08": ("exploration", "deterministic simulation: every call sequence over {send, recv} up to length 6 on REQ and on REP compared call by call with a reference state machine, and seeded schedules of 1..4 concurrent clients with replies attributed by tag and by connection tap",
         "All 126 sequences are enumerated (undisturbed, then under random transport and schedules); an illegal call must fail, hand the message back intact, leave every tap unchanged and not disturb the next legal call. Concurrency: real and scripted REQ clients against one REP; each reply must appear on the connection its request arrived on.",
         "Sequence space exhaustive to length 6; schedules sampled. REP recv while a request is held is not judged.", "5/C08"),
 "C14": ("fault_enumeration", "deterministic simulation with cancellation faults: recv futures dropped after k polls (k = 0..5) at sampled byte-arrival positions for every receiving socket type; delivery oracle of C05 plus REQ protocol-state oracle",
         "Every fair-queue socket type with up to 24 abandoned recv calls per run while tagged messages arrive under random segmentation; the concatenation of completed recvs must still be exactly-once/in-order/whole. REQ: after an abandoned recv a further send must be refused with the message intact and nothing on the wire, and the next completed recv must return the reply to the outstanding request.",
         "Cancellation = dropping the future, as select!/timeout/proxy do. Poll budgets enumerated 0..5; arrival positions sampled.", "5/C14"),
}
NOT_YET = {}

props = [json.loads(l) for l in open(os.path.join(HERE, "properties.jsonl"))]
checks = []
for p in props:
    pid = p["id"]
    if pid in CLAIMED:
        cat, tech, text, note, ref = CLAIMED[pid]
        checks.append({
            "property_id": pid,
            "quick_cmd": f"./check {pid} quick",
            "thorough_cmd": f"./check {pid} thorough",
            "evidence_file": f"/verif/evidence/{pid}.json",
            "replay_cmd_template": "./check replay {path}",
            "engine": "zsim",
            "level_claimed": {"category": cat, "text": text, "design_ref": ref},
            "level_note": note,
            "technique": tech,
        })
na = [{"property_id": "C19", "reason": "endpoint parsing is a pure function of one string: no schedule, clock, I/O, fault or second party for a simulator to own; input generation alone is not deterministic simulation (DESIGN.md section 2)"}]
for p in props:
    if p["id"] not in CLAIMED and p["id"] != "C19":
        na.append({"property_id": p["id"], "reason": NOT_YET.get(p["id"], "not claimed yet: its simulation scenario is still being built (see DESIGN.md section 5 for the planned check)")})
hooks = subprocess.run(["git", "-C", "/repo", "log", "--format=%H %s"], capture_output=True, text=True).stdout.splitlines()
hook_commits = [l.split()[0] for l in hooks if " verif hook:" in " " + l.split(" ", 1)[1] or l.split(" ", 1)[1].startswith("verif hook:")]
m = {
 "version": 1,
 "setup_cmd": "./check setup",
 "hooks": {
   "guard": "cfg zmq_verif (rustc --cfg, not a cargo feature)",
   "enable": "RUSTFLAGS=--cfg zmq_verif via /verif/sim/.cargo/config.toml; /verif/gen_shadow.py generates a shadow package manifest whose [lib] path is /repo/src/lib.rs, adds the simulated runtime crate zmq-simrt and renames parking_lot to the instrumented drop-in zmq-sim-sync; /repo's Cargo.toml and Cargo.lock are untouched",
   "baseline_off_cmd": "cd /repo && cargo test --workspace --no-fail-fast --offline",
   "source_commits": hook_commits,
   "add_only": True,
 },
 "engines": [{"name": "zsim", "path": "/verif/sim", "serves_properties": sorted(CLAIMED.keys()),
              "kind_free_text": "deterministic discrete-event simulator (single-threaded executor, virtual clock, in-memory TCP/IPC namespace, entropy and select! seams) running the real library; seeded swarm search with fault injection; tape-based replay and minimisation"}],
 "checks": checks,
 "not_applicable": na,
 "notes": "All checks are one binary (sim/zsim) driven by ./check; every check rebuilds from /repo's working tree. Exit 0 = held on everything explored, 1 = VIOLATION line(s) with replay files under /verif/replays, 2 = harness error. Known findings and fixed defects: /verif/known_findings.json.",
}
json.dump(m, open(os.path.join(HERE, "MANIFEST.json"), "w"), indent=1)
print("claimed:", sorted(CLAIMED.keys()), "hooks:", len(hook_commits))
