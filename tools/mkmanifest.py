#!/usr/bin/env python3
"""Regenerate /verif/MANIFEST.json from the table below (kept here so that the manifest stays
valid and consistent while checks are added)."""
import json, os, subprocess
HERE = os.path.dirname(os.path.dirname(os.path.abspath(__file__)))

# id -> (category, technique, level text, level note, design ref)
ROUND5 = {
 "C15": "proxy_client_rejoins: a front-side client joins again under its announced identity while a large reply to its slow first connection is blocked; afterwards a message on the new connection comes back on the new connection.",
 "C06": "l1_crowd: the component simulation with 130..229 peers that go quiet and then speak all at once.",
 "C11": "recovery: a subscriber that stalled while a thousand-odd small messages were published and has caught up receives what is published afterwards.",
 "C13": "A first connection left open by a publisher that joined again under its identity is judged like any other peer while the socket still holds it.",
 "C02": "One drawn stream in twelve carries a frame of 64 KiB..2 MiB with further messages behind it.",
 "C03": "Two attacks are long runs (3 000 / 30 000) of well-formed commands after the handshake, then a message. A further attack is a series of well-formed subscriptions and cancellations with filters around the topics the (PUB/XPUB) victim publishes afterwards.",
 "C04": "predicted_identity: if the socket generates short identities (up to 8 bytes, where applications number their peers) a peer announces a neighbour of one, more anonymous peers join; registrations stay pairwise distinct and the announcing peer stays a peer. readmission: a peer leaves and is admitted again under its announced identity (96 histories): it is registered - heard, reachable, labelled, connection kept.",
 "C05": "One fault-free case in sixteen is a long history (90..210 messages per sender). l2_big draws frames of 1 MiB and more.",
 "C08": "rejoin_reply: the reply goes to the connection the request came from, also after the requester rejoined under its identity. A third of the disturbed call sequences put a frame of 0, 256, 300 or 9000 bytes in front of the last frame of requests and replies.",
 "C09": "router_abandoned_send: a routed send under back-pressure is dropped after k polls; the peer stays addressable. Departing peers may only shut down their sending direction (judged for consistency); rejoin_during_blocked_send: the target's peer joins again under its identity while a routed send to it is blocked.",
 "C10": "The departure phase includes REQ; the bytes of each send on the chosen connection are compared with the exact encoding. One message in four ends in one or two empty frames; the bytes of sends made while a departure is being observed are compared too. Peers announce nothing, a present-but-empty identity or distinct identities.",
 "C12": "In half of the runs every subscriber holds several overlapping subscriptions. recovery: one of two subscribers stalls while 1030..1430 small messages are published, catches up, and must receive what is published afterwards.",
 "C14": "l1_takeover: the fair-queue component simulation with the receiving end changing hands; long histories with recv calls abandoned all the way through. rep_owed_reply_one_recv_rejoin / rep_owed_reply_after_rejoin: the owed reply after the requester left and rejoined under its identity, with a further recv abandoned.",
 "C16": "Half of the PUB/XPUB cells publish 70 kB messages right after the fault without reading first (the send path has to find the dead subscriber). In the cut worlds a SUB socket subscribes right after the fault and once more at the end; every healthy bystander must have been sent both.",
 "C17": "SUB cells with 180 kB of subscriptions whose replay to a non-reading peer is blocked at close/drop. In one disturbed case in four an accept() on every bound endpoint failed some time before the teardown. A third of the disturbed connected-out cells abandon the connect call in its handshake, another third in its retry loop (a listener appears there after the teardown and must not be connected to).",
 "C18": "The operation 'the next accept() fails' (ECONNABORTED, uncategorised, ENOMEM, EINTR) is part of the sequences. The operation TimePasses moves the virtual clock by 1 s .. 25 h between operations; accept failures are injected on IPC endpoints too.",
 "C20": "A staller may abort (RST) while still in the accept backlog, after which getpeername on the accepted connection fails; a refused connection afterwards is a violation. Right after a valid greeting a staller may send a correctly framed READY with a property given two or three times.",
}
CLAIMED = {
 "C05": ("exploration", "deterministic simulation with fault injection: seeded search over schedules, read/write segmentations and connection faults; per-connection exactly-once/in-order oracle over wire taps vs recv history",
         "Whole library on a simulated runtime: a receiving socket of each fair-queue type with 1..4 scripted senders; every run draws its own scheduler policy, pipe capacities, chunking, yields, delivery delays, late joins, closes, mid-message cuts and resets. Also real sockets as senders, the fair-queue component simulation, and peers that rejoin under their identity. Oracle at quiescence: recv results attributed by tag equal, in order and frame by frame, the complete messages an independent RFC-23 decoder finds on each connection's tap. One open known finding (identity collision on overlapping rejoin) is listed in known_findings.json with its replay. Sampling, not proof. Messages may end in empty frames; on ROUTER and DEALER the application answers between its recv calls in half of the runs.",
         "Trusts the simulated transport to behave like an ordered reliable byte stream, the independent reference codec, and that task interleavings at await points plus reactor events at mutex boundaries cover the relevant schedules.", "5/C05, B1"),
 "C06": ("exploration", "deterministic simulation of the real fair queue with scripted streams: seeded search over interleavings of arrivals, wakes, inserts, closes and receiver polls, including events inside the window where poll_next holds no lock; lost-wake-up and bounded-overtaking oracles at quiescence",
         "L1: the private fair queue driven through the FairQueueProbe hook; foreign events land between polls, inside stream polls and at every lock/unlock of the queue's mutex. Oracles: at quiescence the receiver may not be parked un-woken while an inserted stream holds an item; with deep queues no ready peer waits for more than 2n+2 (+1 per injected spurious wake) foreign deliveries. Streams and transports may also run out of cooperative budget inside a poll (Pending + immediate or deferred self-wake for the rest of the poll, as tokio's): the poll must return to the executor, not spin (clauses spins_when_stream_yields / spins_when_transport_yields; found and repaired F21). L2: whole library, nobody parked in recv while a complete message is undelivered. Sampling, not proof.",
         "Trusts that every access to the queue's shared state goes through its parking_lot mutex (so lock boundaries are the only interleaving points), and the waker contract modelled by the scripted streams (fired at most once per registration).", "5/C06, 3.9, B2, B3"),
 "C07": ("exploration", "deterministic simulation: REQ and REP sockets against scripted peers and each other under seeded segmentation and scheduling; envelope algebra checked on wire taps and at the API",
         "REP fed requests with 0..3 routing frames, delimiter and 1..4 payload frames from the boundary grid (empty frames inside), plus single-frame and delimiter-last forms; REQ against a scripted REP; REQ against REP. Oracles: REQ wire = delimiter + payload, REQ recv = reply minus the delimiter, REP recv = frames after the first delimiter, REP wire = saved prefix + delimiter + reply, never a zero-frame message. Also: one request in five left unanswered before the next recv; req_partner_gone = REQ with 2..3 partners of which one goes away, envelopes checked on every partner's connection.",
         "Payload space sampled over a length grid; requests with no delimiter at all are outside the statement.", "5/C07"),
 "C08": ("exploration", "deterministic simulation: every call sequence over {send, recv} up to length 6 on REQ and on REP compared call by call with a reference state machine, and seeded schedules of 1..4 concurrent clients with replies attributed by tag and by connection tap",
         "All 126 sequences are enumerated (undisturbed, then under random transport and schedules); an illegal call must fail, hand the message back intact, leave every tap unchanged and not disturb the next legal call. Concurrency: real and scripted REQ clients against one REP; each reply must appear on the connection its request arrived on.",
         "Sequence space exhaustive to length 6; schedules sampled. REP recv while a request is held is not judged. Beyond the undisturbed enumeration REP partners slip malformed requests into their pipelines: a rejected request must not move the lock-step state.", "5/C08"),
 "C14": ("fault_enumeration", "deterministic simulation with cancellation faults: recv futures dropped after k polls (k = 0..5) at sampled byte-arrival positions for every receiving socket type; delivery oracle of C05 plus REQ protocol-state oracle",
         "Every fair-queue socket type with up to 24 abandoned recv calls per run while tagged messages arrive under random segmentation; the concatenation of completed recvs must still be exactly-once/in-order/whole. REQ: after an abandoned recv a further send must be refused with the message intact and nothing on the wire, and the next completed recv must return the reply to the outstanding request. Also release_after_abandoned_recv (closed peers are still released, SUB still usable) and rep_owed_reply (REP's owed reply survives an abandoned recv).",
         "Cancellation = dropping the future, as select!/timeout/proxy do. Poll budgets enumerated 0..5; arrival positions sampled.", "5/C14"),
 "C01": ("exploration", "deterministic simulation: messages over a boundary grid of frame lengths pushed through real sockets of every kind under seeded write/read segmentation and back-pressure; wire taps decoded by an independent RFC-23 codec and compared byte-exactly with its encoder",
         "Every pair of grid lengths {0,1,2,254,255,256,257,8191,8192,8193,65535,65536,131071,131072,131073} and every single length, for 8 emitting and 7 receiving socket kinds, plus drawn shapes up to several MiB; greeting and READY of all 9 socket types x identity {none,1,255} x {accepting, connecting}. The property's own quantifier is over inputs; the simulator adds transport segmentation and the tap oracle, and nothing more is claimed. Also: messages of 6..300 frames; READY for every identity length 0..255; wire_out_backlog = encoding into a connection buffer that still holds unflushed bytes (slow subscribers).",
         "Input space enumerated over the grid only; trusts the independent reference codec.", "5/C01"),
 "C02": ("exploration", "deterministic simulation with exact control of read boundaries: the same byte stream is fed to real sockets under enumerated and seeded partitions (all 2^15 partitions of a 16-byte suffix, single cuts, cut pairs, byte-at-a-time, block-aligned) and compared with the reference decode of the concatenation",
         "A scripted peer releases chunk i+1 only once the reader has drained chunk i and the simulation is idle, so the executed partition is exactly the planned one. Includes data in the same segment as the end of the handshake. Receiving kinds PULL, DEALER, SUB, ROUTER, XPUB, REP, REQ. READY may be in the long command form (values up to 700 bytes, Identity 225..255 bytes).",
         "Thorough tier enumerates 3 x 2^15 partitions completely; longer streams are sampled.", "5/C02"),
 "C03": ("exploration", "deterministic simulation with hostile-peer fault injection: structure-aware attack catalogue, exhaustive short strings over a reduced alphabet and random mutations at every handshake stage for every socket type; oracles: panic capture in every task and API call, worker-process survival (stack overflow/abort seen as signals), counting allocator, healthy second connection keeps working",
         "31 attacks (incl. huge declared frames of which up to 1 MiB is really delivered) x 3 stages x 9 socket types (undisturbed, then under drawn transport/schedule), all 19607 strings <= 5 over {00,01,02,04,06,05,ff} after greeting and after handshake (thorough), random mutations of valid streams. Largest single allocation after the first hostile byte must stay <= 256 KiB + 64 x bytes sent.",
         "Stack clause depends on documented parameters: 2 MiB run-thread stack, library built unoptimised. Allocation failure is not injected; request sizes are judged.", "5/C03, 3.10"),
 "C04": ("fault_enumeration", "deterministic simulation: full configuration grid of scripted handshakes (226800 cells) run through real accept/connect paths under seeded segmentation, compared with an independent admission predicate; plus enumeration of the 144 compatibility queries",
         "Grid = local type (9) x peer Socket-Type (12 names, unknown, missing) x version (5) x mechanism (4) x signature (3) x identity (5) x first item (3) x side (2). Observables: application message exchanged or not, monitor Accepted/AcceptFailed, connect() result, connection closed by the socket.",
         "Thorough tier enumerates the grid completely, quick samples it. 'Known mechanism' is read as NULL/PLAIN/CURVE as the statement says. Stratum registration: 2..4 admissible peers per socket (identity none / empty / distinct edge shapes, accepted or dialled): one admission event each, announced resp. pairwise distinct identities, no admitted connection closed, traffic flows exactly once per peer.", "5/C04"),
 "C09": ("exploration", "deterministic simulation: ROUTER socket with 1..4 scripted peers (announced or assigned identities) under seeded schedules; labels checked against the connection a message arrived on, routed sends checked on connection taps snapshotted around every send",
         "Inbound: first frame constant per connection, equal to the announced identity, distinct across connections, remaining frames verbatim. Outbound: exactly the addressed connection gains exactly the remaining frames; unknown identity (empty, 1, 17, 256 bytes) or departed peer: Err and no tap changes.",
         "Identities never duplicated by the generator; single-frame sends are outside the statement. Identity shapes include a leading zero byte, all zeros, embedded zeros, 0xff bytes and prefixes of one another; unknown targets include near misses of a connected identity.", "5/C09"),
 "C10": ("exploration", "deterministic simulation: PUSH/DEALER/REQ with 0..4 scripted peers joining at seeded times under partial writes; connection taps snapshotted at the instant send returns; strict rotation asserted over windows of stable membership taken from monitor events",
         "A successful send must have written the complete message to exactly one admitted peer by the time it returns; n consecutive sends over a stable set of n peers reach n distinct peers; with no peer the send fails, hands the message back intact and writes nothing.",
         "During the judged sends nobody departs; membership from Accepted events resp. completed connect calls. rr_connect stratum: the socket dials harness listeners, some appearing late, so connect() retries with back-off on the virtual clock; in one case in three a peer departs after the judged sends and, once a send has failed on it, sends must succeed and rotate strictly over the rest.", "5/C10, B4"),
 "C11": ("exploration", "deterministic simulation: every subscription history up to length 4 over 9 operations enumerated for PUB and XPUB, longer seeded histories with 1..3 subscribers; publisher probes all first frames at quiescent points; subscriber taps compared with a multiset-prefix reference model",
         "Operations: subscribe/unsubscribe x topics {'', a, ab, b} and garbage (multi-frame, bad first byte, empty). A probe must reach a subscriber exactly once iff a multiset element is a prefix of its first frame. XPUB: recv returns every subscriber message verbatim, per-connection order (interleaving check). Also a non-UTF-8 topic alphabet, probe messages of one to three frames, and a successor connection (possibly under the same announced identity, possibly overlapping) that must inherit nothing.",
         "Compared only at quiescent points; subscribers accept every write.", "5/C11, B5"),
 "C12": ("fault_enumeration", "deterministic simulation with back-pressure faults: stall patterns on subscriber pipes (accept k bytes then stall, stall/resume, never drain, broken pipe, co-operative yields) enumerated against message sizes around the 128 KiB mark; publisher completion, healthy-subscriber completeness, ordered-subsequence-prefix oracle on victim taps, counting allocator for the memory bound",
         "PUB and XPUB. Every send must complete while the victim is still stalled; the subscriber that accepts every write receives every message in order; each victim tap is a byte prefix of the encoding of an order-preserving subsequence; heap growth while publishing 50..149 further messages to a stalled subscriber is bounded independently of their number. Messages of one, two and three frames; memory_world also with a subscriber whose writes fail or who has closed while the application never calls recv.",
         "'Accepts every write' = its pipe never answers Pending. Memory bound 2 x (128 KiB + message) + 64 KiB.", "5/C12, B6"),
 "C13": ("exploration", "deterministic simulation with connection faults: seeded histories of subscribe/unsubscribe interleaved with publishers joining by accept (background handshake, concurrent with later calls) and by connect, enumerated join points, one publisher failing; per-publisher folded topic counts compared at quiescence",
         "Every connected publisher's view of the subscription set must be identical and, for histories without duplicate subscribes, equal to the socket's set; a failing peer must not keep the others from being updated. Strata rejoin (a publisher comes back under its announced identity) and rejoin_in_flight (the open finding 11.5 in its SUB form, one masked clause).",
         "With duplicate subscribes only agreement is required.", "5/C13, B5"),
 "C15": ("exploration", "deterministic simulation: REQ clients - ROUTER | proxy() | DEALER - REP workers with a capture socket, real and scripted endpoints, seeded schedules, segmentation and select! order; verbatim/exactly-once/ordered forwarding checked on front, back and capture connection taps",
         "Every request reaches a worker exactly once as identity + delimiter + payload verbatim, every reply reaches exactly its client, the capture sink gets one copy of every forwarded message in per-client order, proxy() keeps running.",
         "Clients/workers do not depart; pipe capacities stay above the largest message (mutual back-pressure deadlock of proxy() is flow control, outside the statement). Second stratum proxy_dealer_world: DEALER clients pipelining delimiter-less messages (single-frame included) to DEALER echo workers.", "5/C15"),
 "C16": ("fault_enumeration", "deterministic simulation with connection faults enumerated over every byte offset of the victim's stream x {orderly close, reset, read error, write error} x 9 socket types with live bystanders, plus connect/disconnect churn; clause-keyed oracles on recv history, taps and connection release",
         "Clauses: others_affected, more_than_one_error, routed_to_failed_peer, sends_keep_failing, not_released, dead_connections_accumulate, hang, no_quiescence. Strata cut_world, cut_world_connect, rejoin_same_identity (departure and rejoin under the same identity at four timings), churn. Also idle_release (silence after the fault, every later recv abandoned) and l1_closed_reports (component simulation: every ended stream reported closed exactly once).",
         "'Released' is asserted only after the socket has been polled to quiescence after the fault; TCP half-close is not injected.", "5/C16, B7"),
 "C17": ("fault_enumeration", "deterministic simulation: the 432-cell grid socket type x transport x history prefix x {close, drop} executed in the simulated network and file namespaces through the real bind/accept/close code, repeated under seeded schedules and an injected unlink failure",
         "At close() return (resp. at quiescence after drop): no listener left and fresh connects refused, IPC socket file removed, every peer connection closed by the socket, no library-spawned task alive, close() reports an injected unlink failure. Variants: second bound endpoint, monitor installed, subscription made, backlogged subscribers, a crowd of 120..180 pending handshakes at teardown.",
         "Ports and socket files are the simulator's; kernel and tokio-gated glue lines are not exercised.", "5/C17"),
 "C18": ("exploration", "deterministic simulation: seeded operation sequences over bind (tcp v4/v6/localhost port 0, fixed port, ipc, duplicate, unresolvable), unbind (bound/unknown), connect-in and message exchange, checked after every operation against a reference model of the bind set in the simulated namespaces",
         "Return values, binds(), listener set, socket files, connectability of returned endpoints, isolation of unbind, survival of established connections. unbind of an endpoint that is not bound is tried with far and near misses (wildcard-port form of a bound endpoint, next port, other host spelling, unspecified address, longer ipc path, endpoint unbound earlier).",
         "Namespaces are simulated; 'localhost' resolves to 127.0.0.1.", "5/C18"),
 "C20": ("fault_enumeration", "deterministic simulation with handshake faults enumerated over every byte offset of greeting+READY x {stop, close, garbage} x 9 bound socket types x {tcp, ipc}, 1..3 simultaneous stallers, well-behaved clients before/during/after and an established peer",
         "At quiescence every well-behaved client has been admitted and exchanged a message, established traffic continues, and the monitor has exactly one AcceptFailed per handshake that failed (none for silent stallers). Also a crowd of 100..160 simultaneous stallers, 1030..1200 clients coming and going behind the stallers, an injected accept() error, and a bound on Accepted events.",
         "REQ judged with a single well-behaved client.", "5/C20"),
}
NOT_YET = {}

props = [json.loads(l) for l in open(os.path.join(HERE, "properties.jsonl"))]
checks = []
for p in props:
    pid = p["id"]
    if pid in CLAIMED:
        cat, tech, text, note, ref = CLAIMED[pid]
        if pid in ROUND5:
            text = text + " " + ROUND5[pid]
        checks.append({
            "property_id": pid,
            "quick_cmd": f"./check {pid} quick",
            "thorough_cmd": f"./check {pid} thorough",
            "evidence_file": f"/verif/evidence/{pid}.json",
            "replay_cmd_template": "./check replay {path}",
            "engine": "zsim",
            "level_claimed": {"category": cat, "text": text, "design_ref": ref},
            "level_note": note,
            "technique": tech,
        })
na = [{"property_id": "C19", "reason": "endpoint parsing is a pure function of one string: no schedule, clock, I/O, fault or second party for a simulator to own; input generation alone is not deterministic simulation (DESIGN.md section 2)"}]
for p in props:
    if p["id"] not in CLAIMED and p["id"] != "C19":
        na.append({"property_id": p["id"], "reason": NOT_YET.get(p["id"], "not claimed yet: its simulation scenario is still being built (see DESIGN.md section 5 for the planned check)")})
hooks = subprocess.run(["git", "-C", "/repo", "log", "--format=%H %s"], capture_output=True, text=True).stdout.splitlines()
hook_commits = [l.split()[0] for l in hooks if " verif hook:" in " " + l.split(" ", 1)[1] or l.split(" ", 1)[1].startswith("verif hook:")]
m = {
 "version": 1,
 "setup_cmd": "./check setup",
 "hooks": {
   "guard": "cfg zmq_verif (rustc --cfg, not a cargo feature)",
   "enable": "RUSTFLAGS=--cfg zmq_verif via /verif/sim/.cargo/config.toml; /verif/gen_shadow.py generates a shadow package manifest whose [lib] path is /repo/src/lib.rs, adds the simulated runtime crate zmq-simrt and renames parking_lot to the instrumented drop-in zmq-sim-sync; /repo's Cargo.toml and Cargo.lock are untouched",
   "baseline_off_cmd": "cd /repo && cargo test --workspace --no-fail-fast --offline",
   "source_commits": hook_commits,
   "add_only": True,
 },
 "engines": [{"name": "zsim", "path": "/verif/sim", "serves_properties": sorted(CLAIMED.keys()),
              "kind_free_text": "deterministic discrete-event simulator (single-threaded executor, virtual clock, in-memory TCP/IPC namespace, entropy and select! seams) running the real library; seeded swarm search with fault injection; tape-based replay and minimisation"}],
 "checks": checks,
 "not_applicable": na,
 "notes": "All checks are one binary (sim/zsim) driven by ./check; every check rebuilds from /repo's working tree. Exit 0 = held on everything explored, 1 = VIOLATION line(s) with replay files under /verif/replays, 2 = harness error. Known findings and fixed defects: /verif/known_findings.json.",
}
json.dump(m, open(os.path.join(HERE, "MANIFEST.json"), "w"), indent=1)
print("claimed:", sorted(CLAIMED.keys()), "hooks:", len(hook_commits))
