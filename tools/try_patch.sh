#!/bin/bash
# usage: tools/try_patch.sh <patch file> [PROP ...]
# Applies a patch to /repo, runs the quick check of the listed properties (default: all claimed),
# prints one line per property, restores /repo.  Used for seeded (breaking) and for behaviour-preserving
# changes alike; never leaves /repo modified.
set -u
PATCH=$1; shift
PROPS=${*:-$(jq -r '.checks[].property_id' /verif/MANIFEST.json | xargs)}
if [ -n "$(git -C /repo status --porcelain)" ]; then echo "/repo is not clean"; exit 2; fi
git -C /repo apply "$PATCH" || { echo "patch does not apply"; exit 2; }
# evidence files are rewritten by every run: what a run against a patched tree writes is not kept
EVBAK=$(mktemp -d); cp -a /verif/evidence/. "$EVBAK"/
trap 'git -C /repo checkout -- . ; git -C /repo clean -fdq src; cp -a "$EVBAK"/. /verif/evidence/; rm -rf "$EVBAK"' EXIT
cd /verif
./check setup > /tmp/try_patch_build.log 2>&1 || { echo "BUILD FAILED"; tail -30 /tmp/try_patch_build.log; exit 2; }
for P in $PROPS; do
  out=$(./check "$P" quick 2>&1); rc=$?
  echo "$P rc=$rc $(echo "$out" | grep -E "quick:" | sed 's/.*wall, //')"
  echo "$out" | grep -E "^violation|^VIOLATION|HARNESS|harness" | cut -c1-300
done
