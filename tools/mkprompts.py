#!/usr/bin/env python3
"""Write the prompts for a round of seeded changes: one per claimed property, each naming (by the
situation it needed) every change already made for that property, so that a new one differs in kind.
usage: tools/mkprompts.py <round-tag> [outdir=/tmp/wt]   (property texts are written there too)"""
import json, glob, os, sys
tag = sys.argv[1]
out = sys.argv[2] if len(sys.argv) > 2 else "/tmp/wt"
os.makedirs(out, exist_ok=True)
props = [json.loads(l) for l in open("/verif/properties.jsonl")]
na = {"C19"}
earlier = {}
for f in sorted(glob.glob("/verif/seeded/*/meta.json")):
    m = json.load(open(f))
    earlier.setdefault(m["breaks_property"], []).append(m["needs_to_manifest"])
T = open(os.path.join(os.path.dirname(__file__), "seed_prompt.txt")).read()
for p in props:
    pid = p["id"]
    if pid in na:
        continue
    open(f"{out}/prop_{pid}.txt", "w").write(f"{p['title']}\n\n{p['statement']}\n\nQuantifier: {(p.get('quantifier') or {}).get('text', '')}\n")
    done = " ".join(f"({i+1}) {n.rstrip('.;')};" for i, n in enumerate(earlier.get(pid, [])))
    open(f"{out}/seed{tag}_{pid}.txt", "w").write(T.replace("{P}", pid).replace("{WT}", f"{out}/{pid}").replace("{OUT}", out).replace("{DONE}", done))
print("prompts written for", len(props) - len(na), "properties")
